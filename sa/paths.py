"""Path enumeration with symbolic expressions (no solver, no execution).

Used only inside single small functions on the loop-bounded CFG (each back edge
is taken at most `loop_bound` times).  Along a path every SSA value becomes an
expression tree over the function's inputs; phis are resolved by the predecessor
actually taken; plain memory is tracked by a store map so that a value stored
and re-loaded on the same path is the same expression.

Aliasing assumption (stated in evidence): two pointers with different roots
(different arguments / allocas / globals / call results) address different
objects; a call may modify everything except allocas whose address never
escapes.

Expression forms (tuples):
 ('c', bits, uval) ('arg', i) ('g', name) ('fn', name) ('null',) ('undef',)
 ('alloca', name)
 ('p', base, off, ((var, scale), ...))       pointer arithmetic, flattened
 ('ld', ptr, size, tag)                      unknown memory content; tag = epoch or unique id
 ('b', op, bits, a, b) ('cast', op, frombits, tobits, a) ('icmp', pred, a, b)
 ('sel', c, a, b) ('call', callee, args, seq) ('rmw', op, ptr, operand, seq)
 ('cx', ptr, expected, new, seq, idx)
"""
from .ir import AnalysisError, int_bits

MAX_PATHS = 4096


class Event:
    __slots__ = ("kind", "inst", "ptr", "val", "size", "callee", "args", "res", "extra")

    def __init__(self, kind, inst, **kw):
        self.kind = kind
        self.inst = inst
        self.ptr = kw.get("ptr")
        self.val = kw.get("val")
        self.size = kw.get("size")
        self.callee = kw.get("callee")
        self.args = kw.get("args")
        self.res = kw.get("res")
        self.extra = kw.get("extra")

    def __repr__(self):
        if self.kind == "call":
            return "call %s%s @%s" % (self.callee, fmt(self.args) if self.args is not None else "", self.inst.loc)
        return "%s %s <- %s @%s" % (self.kind, fmt(self.ptr), fmt(self.val), self.inst.loc)


def mkptr(base, off, var=()):
    """Flatten pointer arithmetic."""
    var = tuple(var)
    if base[0] == "p":
        off += base[2]
        var = base[3] + var
        base = base[1]
    if off == 0 and not var:
        return base
    return ("p", base, off, var)


def ptr_parts(e):
    if e[0] == "p":
        return e[1], e[2], e[3]
    return e, 0, ()


def fmt(e):
    if e is None:
        return "-"
    if isinstance(e, (list,)):
        return "[" + ", ".join(fmt(x) for x in e) + "]"
    if not isinstance(e, tuple):
        return str(e)
    k = e[0]
    if k == "c":
        v = e[2]
        if v >= 1 << (e[1] - 1) and e[1] > 1:
            return str(v - (1 << e[1]))
        return str(v)
    if k == "arg":
        return "arg%s" % (e[1],)
    if k == "g":
        return "@" + e[1]
    if k == "fn":
        return "&" + e[1]
    if k in ("null", "undef"):
        return k
    if k == "alloca":
        return "&" + e[1]
    if k == "p":
        s = fmt(e[1])
        if e[2]:
            s += "%+d" % e[2]
        for v, sc in e[3]:
            s += "+%s*%d" % (fmt(v), sc)
        return "(" + s + ")"
    if k == "ld":
        return "*%s" % fmt(e[1])
    if k == "ald":
        return "atomic_load(%s)#%d" % (fmt(e[1]), e[2])
    if k == "cxres":
        return "cxres(%s)#%d" % (fmt(e[1]), e[4])
    if k == "memval":
        return "memval#%d" % e[3]
    if k == "b":
        return "(%s %s %s)" % (fmt(e[3]), e[1], fmt(e[4]))
    if k == "cast":
        return "%s%d(%s)" % (e[1], e[3], fmt(e[4]))
    if k == "icmp":
        return "(%s %s %s)" % (fmt(e[2]), e[1], fmt(e[3]))
    if k == "sel":
        return "(%s ? %s : %s)" % (fmt(e[1]), fmt(e[2]), fmt(e[3]))
    if k == "call":
        return "%s(%s)#%d" % (e[1], ", ".join(fmt(a) for a in e[2]), e[3])
    if k == "rmw":
        return "rmw_%s(%s,%s)#%d" % (e[1], fmt(e[2]), fmt(e[3]), e[4])
    if k == "cx":
        return "cx(%s,%s,%s)#%d.%d" % (fmt(e[1]), fmt(e[2]), fmt(e[3]), e[4], e[5])
    return str(e)


def mask(bits):
    return (1 << bits) - 1


_NEG_PRED = {"eq": "ne", "ne": "eq", "ult": "uge", "uge": "ult", "ugt": "ule", "ule": "ugt",
             "slt": "sge", "sge": "slt", "sgt": "sle", "sle": "sgt"}


def fold_bin(op, bits, a, b):
    if a[0] == "c" and b[0] == "c":
        x, y, m = a[2], b[2], mask(bits)

        def s(v):
            return v - (1 << bits) if v >> (bits - 1) else v
        try:
            if op == "add":
                return ("c", bits, (x + y) & m)
            if op == "sub":
                return ("c", bits, (x - y) & m)
            if op == "mul":
                return ("c", bits, (x * y) & m)
            if op == "and":
                return ("c", bits, x & y)
            if op == "or":
                return ("c", bits, x | y)
            if op == "xor":
                return ("c", bits, x ^ y)
            if op == "shl":
                return ("c", bits, (x << y) & m) if y < bits else None
            if op == "lshr":
                return ("c", bits, x >> y) if y < bits else None
            if op == "ashr":
                return ("c", bits, (s(x) >> y) & m) if y < bits else None
            if op == "udiv" and y:
                return ("c", bits, x // y)
            if op == "urem" and y:
                return ("c", bits, x % y)
            if op == "sdiv" and y:
                q = abs(s(x)) // abs(s(y))
                if (s(x) < 0) != (s(y) < 0):
                    q = -q
                return ("c", bits, q & m)
            if op == "srem" and y:
                r = abs(s(x)) % abs(s(y))
                if s(x) < 0:
                    r = -r
                return ("c", bits, r & m)
        except Exception:
            return None
    return None


def fold_icmp(pred, a, b):
    if a[0] == "c" and b[0] == "c":
        bits = a[1]
        x, y = a[2], b[2]

        def s(v):
            return v - (1 << bits) if v >> (bits - 1) else v
        r = {"eq": x == y, "ne": x != y, "ult": x < y, "ule": x <= y, "ugt": x > y, "uge": x >= y,
             "slt": s(x) < s(y), "sle": s(x) <= s(y), "sgt": s(x) > s(y), "sge": s(x) >= s(y)}[pred]
        return ("c", 1, 1 if r else 0)
    if a == b and pred in ("eq", "ule", "uge", "sle", "sge"):
        return ("c", 1, 1)
    if a == b and pred in ("ne", "ult", "ugt", "slt", "sgt"):
        return ("c", 1, 0)
    # two addresses inside the same object that differ only by constant offsets (objects do not wrap the address space)
    if isinstance(a, tuple) and isinstance(b, tuple) and (a[0] == "p" or b[0] == "p"):
        ra, oa, va = ptr_parts(a)
        rb, ob, vb = ptr_parts(b)
        if ra == rb and va == vb and ra[0] not in ("c", "null"):
            r = {"eq": oa == ob, "ne": oa != ob, "ult": oa < ob, "ule": oa <= ob, "ugt": oa > ob, "uge": oa >= ob,
                 "slt": oa < ob, "sle": oa <= ob, "sgt": oa > ob, "sge": oa >= ob}[pred]
            return ("c", 1, 1 if r else 0)
    return None


REMAT_OPS = ("getelementptr", "bitcast", "zext", "sext", "trunc", "ptrtoint", "inttoptr")


class Path:
    def __init__(self, fn, module, call_effects=None):
        self.fn = fn
        self.module = module
        self.call_effects = call_effects or {}
        self.cond_pos = []      # number of events recorded when each cond was taken
        self.allow_sym = False  # segment analysis: SSA values defined before the segment are fresh symbols
        self.end = None         # 'ret' | 'unreachable' | 'cut:<block>' 
        self.env = {}
        self.mem = {}           # (root, off, var) -> (value expr, size)
        self.epoch = 0
        self.seq = 0
        self.events = []
        self.conds = []         # (expr, taken_value, inst): for br taken_value is bool; for switch an int or 'default'
        self.blocks = []
        self.ret = None
        self.ret_inst = None
        self.edge_count = {}
        self.back_mark = {}
        self._remat_busy = set()
        self.escaped = set()    # alloca names whose address escaped
        self.rstores = {}       # root -> tuple of (off, size, var) stores seen on this path
        self.known = {}         # branch condition expr -> value decided earlier on this path
        self.truncated = False

    def clone(self):
        p = Path(self.fn, self.module, self.call_effects)
        p.cond_pos = list(self.cond_pos)
        p.allow_sym = self.allow_sym
        p.env = dict(self.env)
        p.mem = dict(self.mem)
        p.epoch = self.epoch
        p.seq = self.seq
        p.events = list(self.events)
        p.conds = list(self.conds)
        p.blocks = list(self.blocks)
        p.edge_count = dict(self.edge_count)
        p.back_mark = dict(self.back_mark)
        p._remat_busy = set()
        p.escaped = set(self.escaped)
        p.rstores = dict(self.rstores)
        p.known = dict(self.known)
        return p

    # ---- expression of an operand -----------------------------------------
    def ev(self, v):
        k = v.k
        if k == "int":
            return ("c", int_bits(v.ty), v.uval)
        if k == "inst":
            e = self.env.get(v.name)
            if e is None:
                if self.allow_sym:
                    # a value computed before this segment: address arithmetic and other pure operations on arguments,
                    # globals and constants are re-evaluated (they mean the same everywhere); anything that depends on
                    # memory or on a loop-carried value becomes a symbol
                    d = v.inst
                    if d is not None and d.op in REMAT_OPS and v.name not in self._remat_busy:
                        self._remat_busy.add(v.name)
                        try:
                            self.step(d, None)
                        finally:
                            self._remat_busy.discard(v.name)
                        e = self.env.get(v.name)
                        if e is not None and not contains(e, lambda x: x[0] == "sym"):
                            return e
                        # an address computed from a local object (a member of an alloca'd struct): the object does not move
                        # during the activation, so the address means the same in every segment
                        if e is not None and d.op in ("getelementptr", "bitcast") and not contains(
                                e, lambda x: x[0] == "sym" and not (self.fn.defs.get(x[1]) is not None and self.fn.defs[x[1]].op == "alloca")) \
                                and not contains(e, lambda x: x[0] in ("ld", "call", "ald", "rmw")):
                            return e
                    e = ("sym", v.name)
                    self.env[v.name] = e
                    return e
                raise AnalysisError("value %s used before definition on path in %s" % (v.name, self.fn.name))
            if self.known and e in self.known:
                return ("c", int_bits(v.ty) or 1, self.known[e])
            return e
        if k == "arg":
            return ("arg", v.d["idx"])
        if k == "global":
            return ("g", v.name)
        if k == "func":
            return ("fn", v.name)
        if k == "null":
            return ("null",)
        if k == "undef":
            return ("undef",)
        if k == "cexpr":
            op = v.d["op"]
            ops = v.cexpr_ops()
            if op == "getelementptr":
                if "off" not in v.d:
                    raise AnalysisError("non-constant constant-expression GEP")
                return mkptr(self.ev(ops[0]), v.d["off"])
            if op in ("bitcast", "addrspacecast"):
                return self.ev(ops[0])
            if op in ("ptrtoint", "inttoptr"):
                return self.ev(ops[0])
            raise AnalysisError("unsupported constant expression %s" % op)
        if k in ("cdata", "zero", "cagg", "fp"):
            return ("const", str(v.d))
        raise AnalysisError("unsupported operand kind %s" % k)

    # ---- memory --------------------------------------------------------------
    @staticmethod
    def _mkey(p):
        return ptr_parts(p)

    def _invalidate_call(self):
        self.epoch += 1
        keep = {}
        for k, v in self.mem.items():
            root = k[0]
            if root[0] == "alloca" and root[1] not in self.escaped:
                keep[k] = v
        self.mem = keep

    def load(self, ptr, size, inst):
        k = self._mkey(ptr)
        hit = self.mem.get(k)
        if hit is not None and hit[1] == size:
            return hit[0]
        root, off, var = k
        n = 0
        for (o2, s2, v2) in self.rstores.get(root, ()):
            if var or v2:
                n += 1
            elif s2 is None or size is None or (off < o2 + s2 and o2 < off + size):
                n += 1
        return ("ld", ptr, size, (self.epoch, n))

    def store(self, ptr, val, size):
        root, off, var = self._mkey(ptr)
        dead = []
        for k in self.mem:
            r2, o2, v2 = k
            if r2 != root:
                continue
            sz2 = self.mem[k][1]
            if var or v2:
                if (o2, v2) != (off, var):
                    dead.append(k)
                continue
            if size is None or sz2 is None or (off < o2 + sz2 and o2 < off + size):
                dead.append(k)
        for k in dead:
            del self.mem[k]
        self.rstores[root] = self.rstores.get(root, ()) + ((off, size, var),)
        if size is not None:
            self.mem[(root, off, var)] = (val, size)
        # unknown-root stores bump the epoch for other unknown loads of the same root only
        # (different roots are assumed not to alias)

    def note_escape(self, e):
        if isinstance(e, tuple):
            if e[0] == "alloca":
                self.escaped.add(e[1])
            elif e[0] == "p":
                self.note_escape(e[1])
            elif e[0] in ("cast",):
                self.note_escape(e[4])

    # ---- one instruction -----------------------------------------------------
    def step(self, i, pred_block):
        op = i.op
        if op == "phi":
            for v, b in i.incoming:
                if pred_block is not None and b == pred_block.name:
                    return ("phi", i, v)
            if self.allow_sym and pred_block is None:
                return ("physym", i, None)
            raise AnalysisError("phi %s has no incoming for predecessor in %s" % (i.name, self.fn.name))
        if i.is_dbg():
            return None
        if op == "alloca":
            self.env[i.name] = ("alloca", i.name)
        elif op in ("add", "sub", "mul", "and", "or", "xor", "shl", "lshr", "ashr",
                    "udiv", "sdiv", "urem", "srem"):
            bits = int_bits(i.ty)
            a, b = self.ev(i.ops[0]), self.ev(i.ops[1])
            f = fold_bin(op, bits, a, b) if bits else None
            if f is None and op == "and" and bits:
                # X & -(cond) (all ones or zero): the branch-free form of  cond ? X : 0
                for x, y in ((a, b), (b, a)):
                    yy = y
                    if yy[0] == "b" and yy[1] == "sub" and yy[3][0] == "c" and yy[3][2] == 0:
                        inner = yy[4]
                        while inner[0] == "cast" and inner[1] in ("zext", "sext"):
                            inner = inner[4]
                        if inner[0] == "icmp":
                            f = ("sel", inner, x, ("c", bits, 0))
                    elif yy[0] == "cast" and yy[1] == "sext" and yy[2] == 1 and yy[4][0] == "icmp":
                        f = ("sel", yy[4], x, ("c", bits, 0))
            if f is None and op == "xor" and bits == 1:
                # !cmp on an i1: the opposite comparison
                for x, y in ((a, b), (b, a)):
                    if x[0] == "icmp" and y[0] == "c" and y[2] == 1:
                        f = ("icmp", _NEG_PRED[x[1]], x[2], x[3])
            self.env[i.name] = f if f is not None else ("b", op, bits, a, b)
            if op in ("udiv", "sdiv", "urem", "srem") and b[0] != "c":
                self.events.append(Event("div", i, val=b, extra=op))
        elif op in ("zext", "sext", "trunc"):
            a = self.ev(i.ops[0])
            fb, tb = int_bits(i.ops[0].ty), int_bits(i.ty)
            if a[0] == "c":
                x = a[2]
                if op == "sext" and x >> (fb - 1):
                    x = x - (1 << fb)
                self.env[i.name] = ("c", tb, x & mask(tb))
            else:
                self.env[i.name] = ("cast", op, fb, tb, a)
        elif op in ("bitcast", "addrspacecast"):
            self.env[i.name] = self.ev(i.ops[0])
        elif op in ("ptrtoint", "inttoptr"):
            self.env[i.name] = ("cast", op, 0, 0, self.ev(i.ops[0]))
        elif op == "getelementptr":
            if "off" not in i.d:
                raise AnalysisError("GEP not decomposable at %s" % i.loc)
            from .ir import Value
            var = tuple((self.ev(Value(v, self.fn)), sc) for v, sc in i["var_offs"])
            # constant-fold variable parts
            off = i["off"]
            nv = []
            for ve, sc in var:
                if ve[0] == "c":
                    x = ve[2]
                    if x >> (ve[1] - 1):
                        x -= 1 << ve[1]
                    off += x * sc
                else:
                    nv.append((ve, sc))
            self.env[i.name] = mkptr(self.ev(i.ops[0]), off, nv)
        elif op == "icmp":
            a, b = self.ev(i.ops[0]), self.ev(i.ops[1])
            pred_ = i.pred
            if a[0] in ("c", "null") and b[0] not in ("c", "null"):
                # constant on the right (`0 == x` is `x == 0`): one form for every rule
                a, b = b, a
                pred_ = {"ult": "ugt", "ugt": "ult", "ule": "uge", "uge": "ule", "slt": "sgt", "sgt": "slt", "sle": "sge", "sge": "sle"}.get(pred_, pred_)
            f = fold_icmp(pred_, a, b)
            if f is None and pred_ in ("ne", "eq") and b[0] == "c" and b[2] == 0:
                # (long) (x != y) != 0, as __builtin_expect and !! leave it: the truth value of a widened comparison is the comparison
                inner = a
                while inner[0] == "cast" and inner[1] in ("zext", "sext") and inner[2] >= 1:
                    inner = inner[4]
                if inner is not a and inner[0] == "icmp":
                    NEG = {"eq": "ne", "ne": "eq", "ult": "uge", "uge": "ult", "ugt": "ule", "ule": "ugt",
                           "slt": "sge", "sge": "slt", "sgt": "sle", "sle": "sgt"}
                    f = inner if pred_ == "ne" else ("icmp", NEG[inner[1]], inner[2], inner[3])
            self.env[i.name] = f if f is not None else ("icmp", pred_, a, b)
        elif op == "select":
            c, a, b = (self.ev(x) for x in i.ops)
            if c[0] == "c":
                self.env[i.name] = a if c[2] else b
            else:
                self.env[i.name] = ("sel", c, a, b)
        elif op == "load":
            p = self.ev(i.ops[0])
            if i.is_atomic():
                self.seq += 1
                val = ("ald", p, self.seq)
            else:
                val = self.load(p, i["size"], i)
            self.env[i.name] = val
            self.events.append(Event("load", i, ptr=p, val=val, size=i["size"]))
        elif op == "store":
            p = self.ev(i.ops[1])
            val = self.ev(i.ops[0])
            self.note_escape(val)
            if i.is_atomic():
                self.seq += 1
            else:
                self.store(p, val, i["size"])
            self.events.append(Event("store", i, ptr=p, val=val, size=i["size"]))
        elif op == "atomicrmw":
            p = self.ev(i.ops[0])
            val = self.ev(i.ops[1])
            self.seq += 1
            res = ("rmw", i["rmwop"], p, val, self.seq)
            self.env[i.name] = res
            self.events.append(Event("rmw", i, ptr=p, val=val, size=i["size"], res=res, extra=i["rmwop"]))
        elif op == "cmpxchg":
            p = self.ev(i.ops[0])
            exp, new = self.ev(i.ops[1]), self.ev(i.ops[2])
            self.seq += 1
            self.env[i.name] = ("cxres", p, exp, new, self.seq)
            self.events.append(Event("cmpxchg", i, ptr=p, val=new, size=i["size"], extra=exp,
                                     res=self.env[i.name]))
        elif op == "extractvalue":
            a = self.ev(i.ops[0])
            if a[0] == "cxres":
                self.env[i.name] = ("cx", a[1], a[2], a[3], a[4], i["indices"][0])
            else:
                self.env[i.name] = ("xv", a, tuple(i["indices"]))
        elif op == "fence":
            self.events.append(Event("fence", i, extra=(i.ordering, i["syncscope"])))
        elif op == "call":
            callee = i.callee
            args = [self.ev(a) for a in i.args]
            if callee and (callee.startswith(("llvm.memset.", "llvm.memcpy.", "llvm.memmove.")) or
                           (callee in ("memcpy", "memmove", "memset") and len(args) == 3)):
                # (a freestanding build keeps the libc names instead of the intrinsics: same effect)
                kind = "memset" if "memset" in callee else "memcpy"
                if kind == "memset" and args[1][0] == "c":
                    args[1] = ("c", 8, args[1][2] & 0xff)
                # memcpy(dst, &local, n) of a whole local scalar of n bytes IS a store of that scalar (the idiom for an unaligned /
                # type-pun-free store); memcpy(&local, src, n) is the matching load
                if kind == "memcpy" and args[2][0] == "c" and args[2][2] in (1, 2, 4, 8):
                    nb = args[2][2]
                    sroot = ptr_parts(args[1])
                    droot = ptr_parts(args[0])
                    if sroot[0][0] == "alloca" and not sroot[2] and droot[0][0] != "alloca":
                        hit = self.mem.get(self._mkey(args[1]))
                        if hit is not None and hit[1] == nb:
                            self.store(args[0], hit[0], nb)
                            self.events.append(Event("store", i, ptr=args[0], val=hit[0], size=nb))
                            if not callee.startswith("llvm.") and i.name:
                                self.env[i.name] = args[0]
                            return None
                    if droot[0][0] == "alloca" and not droot[2] and sroot[0][0] != "alloca":
                        al = self.fn.defs.get(droot[0][1]) if hasattr(self.fn, "defs") else None
                        if al is not None and al.get("alloc_size") == nb and droot[1] == 0:
                            val = self.load(args[1], nb, i)
                            self.events.append(Event("load", i, ptr=args[1], val=val, size=nb))
                            self.store(args[0], val, nb)
                            if not callee.startswith("llvm.") and i.name:
                                self.env[i.name] = args[0]
                            return None
                # *dst = (T){ ... } / *dst = local_struct: an aggregate built member by member in a local temporary and copied out
                # whole IS the member stores, when the known scalar members tile the copied range exactly
                if kind == "memcpy" and args[2][0] == "c" and args[2][2] > 8:
                    nb = args[2][2]
                    sroot, soff, svar = ptr_parts(args[1])
                    droot = ptr_parts(args[0])
                    if sroot[0] == "alloca" and not svar and droot[0][0] != "alloca" and sroot[1] not in self.escaped:
                        ents = sorted((k[1], v[1], v[0]) for k, v in self.mem.items()
                                      if k[0] == sroot and not k[2] and v[1] is not None and soff <= k[1] < soff + nb)
                        pos = soff
                        for o, sz, v in ents:
                            if o != pos:
                                pos = None
                                break
                            pos = o + sz
                        if ents and pos == soff + nb:
                            for o, sz, v in ents:
                                dp = mkptr(args[0], o - soff)
                                self.store(dp, v, sz)
                                self.events.append(Event("store", i, ptr=dp, val=v, size=sz))
                            if not callee.startswith("llvm.") and i.name:
                                self.env[i.name] = args[0]
                            return None
                if not callee.startswith("llvm.") and i.name:
                    self.env[i.name] = args[0]          # memcpy / memset return their destination
                ln = args[2]
                size = ln[2] if ln[0] == "c" else None
                self.store(args[0], ("memval", kind, args[1], self.seq), None)
                self.seq += 1
                self.events.append(Event(kind, i, ptr=args[0], val=args[1], size=size, args=args, extra=ln))
            elif callee and callee.startswith("llvm.expect"):
                # __builtin_expect(x, likely) IS x: a hint to the optimiser, not a computation
                if i.name:
                    self.env[i.name] = args[0]
            elif callee and callee.startswith("llvm.") and not callee.startswith("llvm.va_"):
                self.seq += 1
                res = ("call", callee, tuple(args[:-1]) if callee.startswith(("llvm.ctpop", "llvm.ctlz", "llvm.cttz")) else tuple(args), self.seq)
                if i.name:
                    self.env[i.name] = res
                if not callee.startswith(("llvm.lifetime", "llvm.expect", "llvm.ctpop", "llvm.ctlz",
                                          "llvm.cttz", "llvm.bswap", "llvm.assume")):
                    self.events.append(Event("call", i, callee=callee, args=args, res=res))
            else:
                eff = self.call_effects.get(callee) if callee else None
                inl = inline_value(self.module, callee, args) if (eff is not None and callee) else None
                if inl is not None:
                    if i.name:
                        self.env[i.name] = inl
                    return None
                if eff is None:
                    for a in args:
                        self.note_escape(a)
                    self._invalidate_call()
                else:
                    # eff: list of (arg index, size or None) regions the callee may write; nothing else
                    for ai, sz in eff:
                        if ai < len(args):
                            if isinstance(sz, tuple) and sz[0] == "arg":
                                sa_ = args[sz[1]] if sz[1] < len(args) else None
                                sz = sa_[2] if sa_ is not None and sa_[0] == "c" else None
                            self.store(args[ai], ("callwr", callee, self.seq), sz)
                            if sz is not None:
                                # content is unknown: forget the just-recorded value
                                self.mem.pop(self._mkey(args[ai]), None)
                self.seq += 1
                name = callee if callee else ("*", self.ev(i.callee_val))
                res = ("call", name, tuple(args), self.seq)
                if i.name:
                    self.env[i.name] = res
                self.events.append(Event("call", i, callee=name, args=args, res=res))
        elif op in ("br", "switch", "ret", "unreachable"):
            pass
        elif op == "va_arg":
            self.seq += 1
            self.env[i.name] = ("va_arg", self.seq)
        else:
            raise AnalysisError("unsupported opcode %s at %s" % (op, i.loc))
        return None


NEG_PRED = {"eq": "ne", "ne": "eq", "ult": "uge", "uge": "ult", "ule": "ugt", "ugt": "ule",
            "slt": "sge", "sge": "slt", "sle": "sgt", "sgt": "sle"}
SWAP_PRED = {"eq": "eq", "ne": "ne", "ult": "ugt", "ugt": "ult", "ule": "uge", "uge": "ule",
             "slt": "sgt", "sgt": "slt", "sle": "sge", "sge": "sle"}


def record_known(path, c, val):
    """Remember the truth of a branch condition and of its syntactic variants (negated predicate, swapped operands)."""
    path.known[c] = val
    if _is_expr(c) and c[0] == "icmp":
        pred, a, b = c[1], c[2], c[3]
        path.known[("icmp", NEG_PRED[pred], a, b)] = 1 - val
        path.known[("icmp", SWAP_PRED[pred], b, a)] = val
        path.known[("icmp", NEG_PRED[SWAP_PRED[pred]], b, a)] = 1 - val


def pure_functions(module):
    """Defined functions of the module that write no memory and call nothing (effect-free for the store map)."""
    cache = getattr(module, "_pure_cache", None)
    if cache is not None:
        return cache
    out = {}
    for f in module.defined_functions():
        pure = True
        for i in f.real_insts():
            if i.op in ("store", "atomicrmw", "cmpxchg", "fence") or (i.op == "call" and not (i.callee or "").startswith("llvm.")):
                pure = False
                break
        if pure:
            out[f.name] = []
    module._pure_cache = out
    return out


def enumerate_paths(fn, module, loop_bound=None, max_paths=MAX_PATHS, call_effects=None, dropped=None):
    """All paths from entry to a return/unreachable.

    loop_bound=None (default, strict): the function must be loop-free up to loops whose conditions fold to constants on
    every iteration (those are unrolled completely, at most 64 iterations); any other loop raises AnalysisError, so a rule
    written for straight-line code never silently sees a truncated loop.
    loop_bound=k (explicit): each back edge at most k times; paths that would go round again are DROPPED - only for rules
    that know they are looking at a loop and treat the paths as segments.  If `dropped` is a list, the prefix of every
    dropped path (with the condition that sends it round again) is appended to it, so that a rule can discharge the
    truncation by showing those prefixes infeasible in its scope.

    Infeasible paths are pruned only when a branch condition folds to a constant.
    """
    strict = loop_bound is None
    if strict:
        loop_bound = 64
    out = []
    dom = fn.dom()
    eff = dict(pure_functions(module))
    eff.update(call_effects or {})
    call_effects = eff

    def is_back(b, s):
        return s.name in dom[b.name]

    stack = [(Path(fn, module, call_effects), fn.entry, None)]
    while stack:
        path, blk, pred = stack.pop()
        path.blocks.append(blk.name)
        # phis are evaluated simultaneously
        phis = []
        for i in blk.insts:
            if i.op == "phi":
                r = path.step(i, pred)
                phis.append((i, ("sym", i.name) if r[0] == "physym" else path.ev(r[2])))
            else:
                break
        for i, e in phis:
            path.env[i.name] = e
        for i in blk.insts[len(phis):]:
            path.step(i, pred)
        t = blk.term
        if t.op == "ret":
            path.ret = path.ev(t.ops[0]) if t.ops else None
            path.ret_inst = t
            path.end = "ret"
            path.events.append(Event("ret", t, val=path.ret))
            out.append(path)
        elif t.op == "unreachable":
            path.end = "unreachable"
            path.ret_inst = t
            path.events.append(Event("unreachable", t))
            out.append(path)
        elif t.op == "br":
            if t.cond is None:
                nxt = [(fn.blocks[t.succs[0]], None)]
            else:
                c = path.ev(t.cond)
                if c[0] == "c":
                    nxt = [(fn.blocks[t.succs[0] if c[2] else t.succs[1]], None)]
                else:
                    nxt = [(fn.blocks[t.succs[0]], (c, True, t)), (fn.blocks[t.succs[1]], (c, False, t))]
                    if strict and any(v >= 1 for (a_, b_), v in path.edge_count.items() if b_ == blk.name):
                        # second arrival at a loop header whose own test is not a constant: the trip count is a run-time value
                        raise AnalysisError("%s contains a loop whose condition depends on run-time values (at %s): "
                                            "straight-line path rules do not apply" % (fn.name, t.loc))
            for k, (s, cond) in enumerate(nxt):
                if is_back(blk, s):
                    n = path.edge_count.get((blk.name, s.name), 0)
                    if strict and n >= 1 and cond:
                        raise AnalysisError("%s contains a loop whose condition depends on run-time values (at %s): "
                                            "straight-line path rules do not apply" % (fn.name, t.loc))
                    if n >= loop_bound:
                        if strict:
                            raise AnalysisError("%s: loop at %s not unrolled within %d iterations" % (fn.name, t.loc, loop_bound))
                        if dropped is not None:
                            d = path.clone()
                            if cond:
                                d.conds.append(cond)
                                d.cond_pos.append(len(d.events))
                            d.end = "dropped"
                            dropped.append(d)
                        continue
                p2 = path.clone() if k < len(nxt) - 1 else path
                if is_back(blk, s):
                    p2.edge_count[(blk.name, s.name)] = p2.edge_count.get((blk.name, s.name), 0) + 1
                    if (blk.name, s.name) not in p2.back_mark:
                        p2.back_mark[(blk.name, s.name)] = len(p2.conds) + (1 if cond else 0)
                if cond:
                    p2.conds.append(cond)
                    p2.cond_pos.append(len(p2.events))
                    record_known(p2, cond[0], 1 if cond[1] else 0)
                stack.append((p2, s, blk))
        elif t.op == "switch":
            c = path.ev(t.cond)
            cases = t["cases"]
            targets = []
            if c[0] == "c":
                hit = [b for v, b in cases if v == c[2]]
                targets = [(fn.blocks[hit[0] if hit else t["default"]], None)]
            else:
                for v, b in cases:
                    targets.append((fn.blocks[b], (c, v, t)))
                targets.append((fn.blocks[t["default"]], (c, "default", t)))
            for k, (s, cond) in enumerate(targets):
                if is_back(blk, s):
                    n = path.edge_count.get((blk.name, s.name), 0)
                    if strict and (n >= 1 or n >= loop_bound):
                        raise AnalysisError("%s contains a loop closed by a switch (at %s): straight-line path rules do not apply"
                                            % (fn.name, t.loc))
                    if n >= loop_bound:
                        continue
                p2 = path.clone()
                if is_back(blk, s):
                    p2.edge_count[(blk.name, s.name)] = p2.edge_count.get((blk.name, s.name), 0) + 1
                if cond:
                    p2.conds.append(cond)
                    p2.cond_pos.append(len(p2.events))
                    if cond[1] != "default":
                        p2.known[cond[0]] = cond[1]
                stack.append((p2, s, blk))
        else:
            raise AnalysisError("unexpected terminator %s" % t.op)
        if len(out) + len(stack) > max_paths:
            raise AnalysisError("path bound %d exceeded in %s" % (max_paths, fn.name))
    return out


# ---- small expression helpers -------------------------------------------------------

def strip_casts(e):
    while isinstance(e, tuple) and e[0] == "cast":
        e = e[4]
    return e


def _is_expr(x):
    return isinstance(x, tuple) and len(x) > 0 and isinstance(x[0], str)


def subexprs(e):
    if _is_expr(e):
        yield e
    if isinstance(e, tuple):
        for x in e:
            if isinstance(x, tuple):
                for y in subexprs(x):
                    yield y


def contains(e, pred):
    """Does any sub-expression satisfy pred?"""
    for x in subexprs(e):
        if pred(x):
            return True
    return False


def field_of(ptr, fn, module):
    """(struct display name, field path) of a pointer expression rooted at an argument or a global."""
    root, off, var = ptr_parts(ptr)
    tid, sname = 0, None
    if root[0] == "arg":
        ty = fn.args[root[1]].ty
        tid = module.di_struct_for_ir(ty)
        if not tid and ty == "i8*":
            # a void * parameter that the function immediately converts: `ringbuf_t *rb = p;` - take the struct type of
            # the (unique) pointer cast of the argument
            tys = set(i.ty for i in fn.real_insts() if i.op == "bitcast" and i.ops and i.ops[0].k == "arg"
                      and i.ops[0].name == fn.args[root[1]].name and i.ty.startswith("%struct."))
            if len(tys) == 1:
                ty = list(tys)[0]
                tid = module.di_struct_for_ir(ty)
        if tid:
            sname = ty.rstrip("*").split(".", 1)[1]
    elif root[0] == "g":
        g = module.globals.get(root[1])
        sname = root[1]
        if g and g.get("di_ty"):
            tid = g["di_ty"]
    if not tid or off < 0:
        return sname, None
    path, leaf, resid = module.di_field_path(tid, off)
    s = ""
    for c in path:
        if c.startswith("["):
            s += "[]"
        else:
            s += ("." if s else "") + c
    return sname, s


def expand_selects(p, max_sel=3):
    """Paths equivalent to p in which every ('sel', c, a, b) that occurs in a stored value, a condition or the returned value is
    decided: one copy per truth assignment of the distinct select conditions (at most 2^max_sel), with the condition added to
    the path's conditions and the select replaced by the chosen operand.  [p] itself if there is no select (or too many)."""
    import copy

    def sels(x, out):
        if isinstance(x, tuple):
            if x and x[0] == "sel":
                out.add(x[1])
            for y in x:
                sels(y, out)
    cs = set()
    for c, t, i in p.conds:
        sels(c, cs)
    for e in p.events:
        if e.kind in ("store", "rmw", "cmpxchg"):
            sels(e.val, cs)
            sels(e.ptr, cs)
    sels(p.ret, cs)
    cs = sorted(cs, key=str)
    if not cs or len(cs) > max_sel:
        return [p]

    def subst(x, truth):
        if not isinstance(x, tuple):
            return x
        if x and x[0] == "sel" and x[1] in truth:
            return subst(x[2] if truth[x[1]] else x[3], truth)
        y = tuple(subst(z, truth) for z in x)
        if y and y[0] == "b" and len(y) == 5 and y[3][0] == "c" and y[4][0] == "c":
            f = fold_bin(y[1], y[2], y[3], y[4])
            return f if f is not None else y
        if y and y[0] == "b" and len(y) == 5 and y[1] in ("sub", "add", "or", "xor") and y[4][0] == "c" and y[4][2] == 0:
            return y[3]
        return y
    out = []
    import itertools
    for vals in itertools.product((True, False), repeat=len(cs)):
        truth = dict(zip(cs, vals))
        q = copy.copy(p)
        q.conds = [(subst(c, truth), t, i) for c, t, i in p.conds] + [(c, truth[c], None) for c in cs]
        q.cond_pos = list(p.cond_pos) + [0] * len(cs)
        evs = []
        for e in p.events:
            e2 = copy.copy(e)
            e2.val = subst(e.val, truth) if e.val is not None else None
            e2.ptr = subst(e.ptr, truth) if e.ptr is not None else None
            evs.append(e2)
        q.events = evs
        q.ret = subst(p.ret, truth) if p.ret is not None else None
        out.append(q)
    return out


def is_assert_fail_path(p):
    """Path ends in a call to a noreturn assertion handler."""
    if p.ret_inst is not None and p.ret_inst.op == "unreachable":
        return True
    return False


class NoValue(Exception):
    pass


def eval_concrete(e, env):
    """Evaluate an expression to an unsigned int given values for atom expressions (env: expr -> int).
    Raises NoValue if an atom without value is met."""
    if e in env:
        return env[e]
    k = e[0]
    if k == "c":
        return e[2]
    if k == "null":
        return 0
    if k == "cast":
        op, fb, tb, a = e[1], e[2], e[3], e[4]
        v = eval_concrete(a, env)
        if op == "zext":
            return v & mask(fb)
        if op == "trunc":
            return v & mask(tb)
        if op == "sext":
            v &= mask(fb)
            if v >> (fb - 1):
                v -= 1 << fb
            return v & mask(tb)
        raise NoValue(e)
    if k == "b":
        op, bits, a, b = e[1], e[2], eval_concrete(e[3], env), eval_concrete(e[4], env)
        r = fold_bin(op, bits, ("c", bits, a & mask(bits)), ("c", bits, b & mask(bits)))
        if r is None:
            raise NoValue(e)
        return r[2]
    if k == "icmp":
        a, b = e[2], e[3]
        bits = expr_bits(a) or expr_bits(b)
        if bits is None and (a == ("null",) or b == ("null",)):
            bits = 64       # a pointer compared with NULL
        if bits is None and e[1] in ("eq", "ne", "ult", "ule", "ugt", "uge"):
            bits = 64       # two atoms of unrecorded width: their (unsigned) values are compared as they are
        if bits is None:
            raise NoValue(e)
        va, vb = eval_concrete(a, env), eval_concrete(b, env)
        return fold_icmp(e[1], ("c", bits, va & mask(bits)), ("c", bits, vb & mask(bits)))[2]
    if k == "sel":
        return eval_concrete(e[2] if eval_concrete(e[1], env) else e[3], env)
    if k == "call" and isinstance(e[1], str) and e[1].startswith(("llvm.cttz.", "llvm.ctlz.", "llvm.ctpop.", "llvm.bswap.")) and e[2]:
        bits = int(e[1].rsplit(".i", 1)[1])
        v = eval_concrete(e[2][0], env) & mask(bits)
        if e[1].startswith("llvm.ctpop."):
            return bin(v).count("1")
        if e[1].startswith("llvm.bswap."):
            return int.from_bytes(v.to_bytes(bits // 8, "little"), "big")
        if v == 0:
            if len(e[2]) > 1 and e[2][1][0] == "c" and e[2][1][2]:
                raise NoValue(e)        # is_zero_undef
            return bits
        if e[1].startswith("llvm.cttz."):
            return (v & -v).bit_length() - 1
        return bits - v.bit_length()
    raise NoValue(e)


def cond_holds(cond, env):
    """Does the recorded branch condition (expr, taken, inst) hold under env?  Handles switch conditions
    (taken is the case value or 'default')."""
    e, taken, inst = cond
    v = eval_concrete(e, env)
    if inst is not None and getattr(inst, "op", None) == "switch":
        bits = expr_bits(e) or 32
        cases = [cv & mask(bits) for cv, b in inst["cases"]]
        if taken == "default":
            return (v & mask(bits)) not in cases
        return (v & mask(bits)) == (taken & mask(bits))
    return bool(v) == bool(taken)


def expr_bits(e):
    k = e[0]
    if k == "c":
        return e[1]
    if k == "cast":
        return e[3]
    if k == "b":
        return e[2]
    if k == "icmp":
        return 1
    if k == "sel":
        return expr_bits(e[2]) or expr_bits(e[3])
    if k in ("rmw",):
        return None
    if k == "ld":
        return e[2] * 8 if e[2] else None
    return None


ATOM_KINDS = ("sym", "ld", "ald", "cx", "cxres", "rmw", "call", "arg", "g", "alloca", "fn", "null", "undef", "va_arg", "memval")


def arith_subexprs(e):
    """Sub-expressions of the arithmetic skeleton of e: does not descend into atoms
    (memory contents, atomic results, call results), whose internals are addresses/operands."""
    if not _is_expr(e):
        return
    yield e
    if e[0] in ATOM_KINDS:
        return
    for x in e[1:]:
        if isinstance(x, tuple):
            if _is_expr(x):
                for y in arith_subexprs(x):
                    yield y
            else:
                for z in x:
                    if isinstance(z, tuple):
                        for zz in z:
                            if _is_expr(zz):
                                for y in arith_subexprs(zz):
                                    yield y


def partial_eval(e, env):
    """Substitute known atoms (env: expr -> unsigned int) and fold constants; returns an expression."""
    if not _is_expr(e):
        return e
    if e in env:
        bits = expr_bits(e) or 32
        return ("c", bits, env[e] & mask(bits))
    k = e[0]
    if k in ATOM_KINDS or k == "c":
        return e
    if k == "cast":
        a = partial_eval(e[4], env)
        if a[0] == "c" and e[1] in ("zext", "sext", "trunc"):
            x = a[2] & mask(e[2]) if e[2] else a[2]
            if e[1] == "sext" and e[2] and x >> (e[2] - 1):
                x -= 1 << e[2]
            return ("c", e[3], x & mask(e[3]))
        return (k, e[1], e[2], e[3], a)
    if k == "b":
        a, b = partial_eval(e[3], env), partial_eval(e[4], env)
        f = fold_bin(e[1], e[2], a, b) if e[2] else None
        return f if f is not None else (k, e[1], e[2], a, b)
    if k == "icmp":
        a, b = partial_eval(e[2], env), partial_eval(e[3], env)
        f = fold_icmp(e[1], a, b)
        return f if f is not None else (k, e[1], a, b)
    if k == "sel":
        c = partial_eval(e[1], env)
        if c[0] == "c":
            return partial_eval(e[2] if c[2] else e[3], env)
        return (k, c, partial_eval(e[2], env), partial_eval(e[3], env))
    if k == "p":
        return mkptr(partial_eval(e[1], env), e[2], tuple((partial_eval(v, env), s) for v, s in e[3]))
    return e



def enumerate_segments(fn, module, call_effects=None, max_paths=MAX_PATHS, seed=None):
    """Loop-free segments: paths from the entry and from every loop header to a return or to the next arrival at
    a loop header.  SSA values defined before a segment are fresh symbols ('sym', name); memory is unknown at the
    start of a segment.  Returns [(start block name, Path)], with path.end in {'ret','unreachable','cut:<block>'}."""
    heads = fn.loops_headers()
    eff = dict(pure_functions(module))
    eff.update(call_effects or {})
    out = []
    for start in [fn.entry.name] + sorted(h for h in heads if h != fn.entry.name):
        p0 = Path(fn, module, eff)
        p0.allow_sym = start != fn.entry.name
        if seed and start != fn.entry.name:
            # memory facts the caller has established as invariants at every loop header: {pointer expression: (value, size)}
            for ptr, (val, size) in seed.items():
                p0.mem[p0._mkey(ptr)] = (val, size)
        stack = [(p0, fn.blocks[start], None, True)]
        while stack:
            path, blk, pred, first = stack.pop()
            if not first and blk.name in heads:
                path.end = "cut:" + blk.name
                path.ret_inst = pred.term
                # evaluate the phis of the header for this arrival (values carried into the next iteration)
                path.carried = {}
                for i in blk.insts:
                    if i.op != "phi":
                        break
                    for v, b in i.incoming:
                        if b == pred.name:
                            path.carried[i.name] = path.ev(v)
                out.append((start, path))
                continue
            path.blocks.append(blk.name)
            phis = []
            for i in blk.insts:
                if i.op == "phi":
                    r = path.step(i, pred)
                    phis.append((i, ("sym", i.name) if r[0] == "physym" else path.ev(r[2])))
                else:
                    break
            for i, e in phis:
                path.env[i.name] = e
            for i in blk.insts[len(phis):]:
                path.step(i, pred)
            t = blk.term
            if t.op == "ret":
                path.ret = path.ev(t.ops[0]) if t.ops else None
                path.ret_inst = t
                path.end = "ret"
                path.events.append(Event("ret", t, val=path.ret))
                out.append((start, path))
            elif t.op == "unreachable":
                path.end = "unreachable"
                path.ret_inst = t
                out.append((start, path))
            elif t.op == "br":
                if t.cond is None:
                    nxt = [(fn.blocks[t.succs[0]], None)]
                else:
                    c = path.ev(t.cond)
                    if c[0] == "c":
                        nxt = [(fn.blocks[t.succs[0] if c[2] else t.succs[1]], None)]
                    else:
                        nxt = [(fn.blocks[t.succs[0]], (c, True, t)), (fn.blocks[t.succs[1]], (c, False, t))]
                for k, (sb, cond) in enumerate(nxt):
                    p2 = path.clone() if k < len(nxt) - 1 else path
                    if cond:
                        p2.conds.append(cond)
                        p2.cond_pos.append(len(p2.events))
                        record_known(p2, cond[0], 1 if cond[1] else 0)
                    stack.append((p2, sb, blk, False))
            elif t.op == "switch":
                c = path.ev(t.cond)
                cases = t["cases"]
                if c[0] == "c":
                    hit = [b for v, b in cases if v == c[2]]
                    targets = [(fn.blocks[hit[0] if hit else t["default"]], None)]
                else:
                    targets = [(fn.blocks[b], (c, v, t)) for v, b in cases] + [(fn.blocks[t["default"]], (c, "default", t))]
                for sb, cond in targets:
                    p2 = path.clone()
                    if cond:
                        p2.conds.append(cond)
                        p2.cond_pos.append(len(p2.events))
                        if cond[1] != "default":
                            p2.known[cond[0]] = cond[1]
                    stack.append((p2, sb, blk, False))
            else:
                raise AnalysisError("unexpected terminator %s" % t.op)
            if len(out) + len(stack) > max_paths:
                raise AnalysisError("segment bound %d exceeded in %s" % (max_paths, fn.name))
    return out



def subst_args(e, args):
    if isinstance(e, tuple):
        if len(e) == 2 and e[0] == "arg" and isinstance(e[1], int) and e[1] < len(args):
            return args[e[1]]
        return tuple(subst_args(x, args) if isinstance(x, tuple) else x for x in e)
    return e


_INLINE_CACHE = {}


def inline_value(module, callee, args):
    """Result expression of a call to a module-internal function that is a single straight-line path touching no
    memory (a pure arithmetic helper), with the arguments substituted; None otherwise."""
    if not module.has_fn(callee) or callee not in pure_functions(module):
        return None
    key = (id(module), callee)
    if key not in _INLINE_CACHE:
        fn = module.functions[callee]
        val = None
        if not any(i.op in ("load", "alloca", "getelementptr", "call") for i in fn.real_insts()):
            try:
                ps = enumerate_paths(fn, module)
                if len(ps) == 1 and not ps[0].conds and ps[0].ret is not None:
                    val = ps[0].ret
            except AnalysisError:
                val = None
        _INLINE_CACHE[key] = val
    v = _INLINE_CACHE[key]
    return subst_args(v, args) if v is not None else None


_PURE_PATHS = {}


def eval_pure_call(module, name, vals):
    """Value returned by a module-local function without memory effects on concrete arguments (unsigned ints): the unique
    path whose conditions hold is selected and its return expression evaluated.  Raises NoValue if that is not possible."""
    key = (id(module), name)
    if key not in _PURE_PATHS:
        _PURE_PATHS[key] = enumerate_paths(module.functions[name], module)
    fn = module.functions[name]
    env = LazyEnv(module)
    for k, v in enumerate(vals):
        bits = int_bits_of(fn.args[k].ty)
        env[("arg", k)] = v & mask(bits) if bits else v
    hits = []
    for q in _PURE_PATHS[key]:
        try:
            if all(cond_holds(cd, env) for cd in q.conds):
                hits.append(q)
        except NoValue:
            raise
    if len(hits) != 1 or hits[0].ret is None:
        raise NoValue(("call", name))
    return eval_concrete(hits[0].ret, env)


def int_bits_of(ty):
    if ty.startswith("i") and ty[1:].isdigit():
        return int(ty[1:])
    return None


def const_table(m, name):
    """(element values, element width) of a constant integer array global, or None."""
    import re
    g = m.globals.get(name)
    if not g or not g.get("const") or "init" not in g:
        return None
    init = g["init"]
    mt = re.match(r"\[(\d+) x i(\d+)\]", init.get("ty", ""))
    if not mt:
        return None
    n, w = int(mt.group(1)), int(mt.group(2))
    if init["k"] == "zero":
        return [0] * n, w
    if init["k"] == "cdata":
        return [int(x) & ((1 << w) - 1) for x in init["elems"]], w
    if init["k"] == "cagg" and all(e.get("k") == "int" for e in init["elems"]):
        return [int(e["v"]) & ((1 << w) - 1) for e in init["elems"]], w
    return None


def const_bytes(m, name):
    """Byte image (list of 0..255 or None for bytes that are not integer data) of a constant global whose initialiser is made
    of integers, arrays and structs; None if it is not constant or its layout is not known.  Struct members are laid out at
    their natural alignment (capped at 8), which is what every target the library supports does for integer members."""
    import re
    g = m.globals.get(name)
    if not g or not g.get("const") or "init" not in g:
        return None

    def size_align(ty, init):
        mt = re.match(r"i(\d+)$", ty or "")
        if mt:
            n = max(1, int(mt.group(1)) // 8)
            return n, min(n, 8)
        return None

    def flat(init):
        """(bytes, alignment) of one initialiser"""
        k = init.get("k")
        ty = init.get("ty", "")
        if k == "int":
            sa = size_align(ty, init)
            if sa is None:
                return None
            n, al = sa
            return [(init["v"] >> (8 * j)) & 0xff for j in range(n)], al
        if k == "cdata":
            mt = re.match(r"\[(\d+) x i(\d+)\]", ty)
            if not mt:
                return None
            w = int(mt.group(2)) // 8
            out = []
            for v in init["elems"]:
                out += [(int(v) >> (8 * j)) & 0xff for j in range(w)]
            return out, min(w, 8)
        if k == "cagg":
            parts = [flat(e) for e in init["elems"]]
            if any(p_ is None for p_ in parts):
                return None
            is_array = ty.startswith("[")
            packed = ty.startswith("<{") or "packed" in ty
            out, al = [], 1
            for b, a in parts:
                a = 1 if packed else a
                if not is_array:
                    while len(out) % a:
                        out.append(0)
                out += b
                al = max(al, a)
            if not is_array:
                while len(out) % al:
                    out.append(0)
            return out, al
        return None
    init = g["init"]
    if init.get("k") == "zero":
        return [0] * g.get("size", 0)
    if init.get("k") == "cagg" and any(e.get("k") == "zero" for e in init["elems"]):
        # zero elements of an array of aggregates: as large as their non-zero siblings
        sib = [flat(e) for e in init["elems"] if e.get("k") != "zero"]
        if not sib or any(x is None for x in sib) or len(set(len(b) for b, a in sib)) != 1:
            return None
        esz = len(sib[0][0])
        out = []
        for e in init["elems"]:
            out += [0] * esz if e.get("k") == "zero" else flat(e)[0]
        return out if len(out) == g.get("size", len(out)) else None
    r = flat(init)
    if r is None or len(r[0]) != g.get("size", len(r[0])):
        return None
    return r[0]


def const_table_load(m, x, env):
    """Value of a load from a constant integer table with a concretely evaluable subscript; None if x is not such a load;
    raises NoValue if the subscript is out of range."""
    if x[0] != "ld":
        return None
    root, off, var = ptr_parts(x[1])
    if root[0] != "g":
        return None
    t = const_table(m, root[1]) if len(var) <= 1 else None
    if t is None:
        # a table of structs (or any other constant aggregate of integers): read from its byte image
        img = const_bytes(m, root[1])
        if img is None:
            return None
        idx = off
        for v_, sc in var:
            i = eval_concrete(v_, env)
            bits = expr_bits(v_) or 64
            if i >> (bits - 1):
                i -= 1 << bits
            idx += i * sc
        n = x[2]
        if not (0 <= idx and idx + n <= len(img)):
            raise NoValue(x)
        return sum(img[idx + j] << (8 * j) for j in range(n))
    if len(var) > 1:
        return None
    vals, w = t
    esz = w // 8
    idx = off
    if var:
        if var[0][1] != esz:
            return None
        i = eval_concrete(var[0][0], env)
        bits = expr_bits(var[0][0]) or 64
        if i >> (bits - 1):
            i -= 1 << bits
        idx += i * esz
    if idx % esz or not (0 <= idx // esz < len(vals)):
        raise NoValue(x)
    return vals[idx // esz]


class LazyEnv(dict):
    """Environment for eval_concrete that also resolves, on demand, calls of module-local pure helpers (evaluated on their
    concrete arguments) and loads from constant integer tables with evaluable subscripts."""

    def __init__(self, module, base=None):
        dict.__init__(self, base or {})
        self.module = module

    def __contains__(self, x):
        if dict.__contains__(self, x):
            return True
        m = self.module
        if x[0] == "call" and isinstance(x[1], str) and m.has_fn(x[1]) and x[1] in pure_functions(m):
            self[x] = eval_pure_call(m, x[1], [eval_concrete(a, self) for a in x[2]])
            return True
        if x[0] == "ld" and ptr_parts(x[1])[0][0] == "g":
            tv = const_table_load(m, x, self)
            if tv is not None:
                self[x] = tv
                return True
        return False
