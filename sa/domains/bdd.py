"""Reduced ordered BDDs and bit-vectors of BDDs: an exact, canonical abstract domain for
word-level code over a few input words.  Equal functions have equal node ids, so comparing the
abstract result with the specification's BDD vector decides equality on ALL inputs; a difference
yields a satisfying assignment, i.e. a concrete witness input.  No solver is involved.
"""
import sys

sys.setrecursionlimit(100000)


class BDD:
    def __init__(self):
        self.nodes = [None, None]           # 0 = FALSE, 1 = TRUE
        self.unique = {}
        self.ite_cache = {}
        self.var_of = [1 << 30, 1 << 30]

    FALSE, TRUE = 0, 1

    def mk(self, var, lo, hi):
        if lo == hi:
            return lo
        key = (var, lo, hi)
        n = self.unique.get(key)
        if n is None:
            n = len(self.nodes)
            self.nodes.append(key)
            self.var_of.append(var)
            self.unique[key] = n
        return n

    def var(self, i):
        return self.mk(i, 0, 1)

    def ite(self, f, g, h):
        if f == 1:
            return g
        if f == 0:
            return h
        if g == h:
            return g
        if g == 1 and h == 0:
            return f
        key = (f, g, h)
        r = self.ite_cache.get(key)
        if r is not None:
            return r
        v = min(self.var_of[f], self.var_of[g], self.var_of[h])

        def cof(x, val):
            if x < 2 or self.var_of[x] != v:
                return x
            return self.nodes[x][2] if val else self.nodes[x][1]
        lo = self.ite(cof(f, 0), cof(g, 0), cof(h, 0))
        hi = self.ite(cof(f, 1), cof(g, 1), cof(h, 1))
        r = self.mk(v, lo, hi)
        self.ite_cache[key] = r
        return r

    def NOT(self, f):
        return self.ite(f, 0, 1)

    def AND(self, f, g):
        return self.ite(f, g, 0)

    def OR(self, f, g):
        return self.ite(f, 1, g)

    def XOR(self, f, g):
        return self.ite(f, self.NOT(g), g)

    def sat_one(self, f):
        """A satisfying assignment {var: 0/1} of f (f != FALSE)."""
        out = {}
        while f > 1:
            v, lo, hi = self.nodes[f]
            if hi != 0:
                out[v] = 1
                f = hi
            else:
                out[v] = 0
                f = lo
        return out

    def size(self):
        return len(self.nodes)


class BV:
    """Bit-vector operations; a value is a list of BDD node ids, LSB first."""

    def __init__(self, bdd):
        self.b = bdd

    def const(self, v, n):
        return [1 if (v >> i) & 1 else 0 for i in range(n)]

    def inputs(self, base, n):
        return [self.b.var(base + i) for i in range(n)]

    def is_const(self, x):
        return all(b < 2 for b in x)

    def to_int(self, x):
        return sum((1 << i) for i, b in enumerate(x) if b == 1)

    def NOT(self, x):
        return [self.b.NOT(a) for a in x]

    def AND(self, x, y):
        return [self.b.AND(a, c) for a, c in zip(x, y)]

    def OR(self, x, y):
        return [self.b.OR(a, c) for a, c in zip(x, y)]

    def XOR(self, x, y):
        return [self.b.XOR(a, c) for a, c in zip(x, y)]

    def shl(self, x, k):
        n = len(x)
        return ([0] * k + x)[:n] if k < n else [0] * n

    def lshr(self, x, k):
        n = len(x)
        return (x[k:] + [0] * k)[:n] if k < n else [0] * n

    def ashr(self, x, k):
        n = len(x)
        s = x[-1]
        return (x[k:] + [s] * k)[:n] if k < n else [s] * n

    def add(self, x, y, cin=0):
        out = []
        c = cin
        B = self.b
        for a, d in zip(x, y):
            axd = B.XOR(a, d)
            out.append(B.XOR(axd, c))
            c = B.OR(B.AND(a, d), B.AND(c, axd))
        return out

    def sub(self, x, y):
        return self.add(x, self.NOT(y), 1)

    def mul(self, x, y):
        n = len(x)
        if self.is_const(y):
            x, y = y, x
        acc = [0] * n
        if self.is_const(x):
            c = self.to_int(x)
            for i in range(n):
                if (c >> i) & 1:
                    acc = self.add(acc, self.shl(y, i))
            return acc
        for i in range(n):
            part = [self.b.AND(x[i], d) for d in self.shl(y, i)]
            acc = self.add(acc, part)
        return acc

    def eq(self, x, y):
        r = 1
        for a, d in zip(x, y):
            r = self.b.AND(r, self.b.NOT(self.b.XOR(a, d)))
        return r

    def ult(self, x, y):
        """x < y unsigned."""
        r = 0
        B = self.b
        for a, d in zip(x, y):      # LSB to MSB
            r = B.ite(B.XOR(a, d), d, r)
        return r

    def slt(self, x, y):
        xs = x[:-1] + [self.b.NOT(x[-1])]
        ys = y[:-1] + [self.b.NOT(y[-1])]
        return self.ult(xs, ys)

    def mux(self, c, x, y):
        return [self.b.ite(c, a, d) for a, d in zip(x, y)]

    def zext(self, x, n):
        return x + [0] * (n - len(x))

    def sext(self, x, n):
        return x + [x[-1]] * (n - len(x))

    def trunc(self, x, n):
        return x[:n]

    def popcount(self, x, n):
        acc = self.const(0, n)
        for bit in x:
            acc = self.add(acc, [bit] + [0] * (n - 1))
        return acc

    def var_shift(self, x, amt, kind):
        """Shift by a symbolic amount (barrel shifter on the low bits of amt)."""
        n = len(x)
        res = x
        k = 0
        while (1 << k) < n:
            sh = {"shl": self.shl, "lshr": self.lshr, "ashr": self.ashr}[kind](res, 1 << k)
            res = self.mux(amt[k], sh, res)
            k += 1
        return res
