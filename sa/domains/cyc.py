"""Cyclic index model: an index `own` in [0, L-1] advanced modulo a symbolic length L.

Linear forms over {own, L, peer#k, mod#k}; entailment by exact Fourier-Motzkin
(domains/lin.py), case analysis for `x % L`, and bounded concrete search for a
counterexample so that 'not proved' becomes a violation only with a witness.
"""
from ..domains.lin import Lin, Prover, expr_to_lin
from ..paths import strip_casts


class IndexModel:
    """Atoms and hypotheses for one path of a producer/consumer function."""

    def __init__(self, classify, min_len=2, max_len=1 << 31):
        """classify(expr) -> 'own' | 'peer' | 'L' | None names the atoms of the rule."""
        self.classify = classify
        self.min_len = min_len
        self.pr = Prover()
        self.notes = set()
        O, Lh = Lin.atom("own"), Lin.atom("L")
        self.pr.assume_ge0(O)
        self.pr.assume_le(O, Lh - 1)
        self.pr.assume_ge0(Lh - min_len)
        self.pr.assume_le(Lh, Lin.const(max_len))
        self.peer_atoms = set()
        self.mods = []          # (atom, Lin X): atom == X mod L
        self._peercache = {}
        self._modcache = {}

    def atom_of(self, e):
        c = self.classify(e)
        if c in ("own", "L"):
            self._named = getattr(self, "_named", {})
            self._named[e] = c
            return c
        if c == "peer":
            a = "peer#%d" % (len(self._peercache) if e not in self._peercache else self._peercache[e])
            self._named = getattr(self, "_named", {})
            self._named[e] = a
            if e not in self._peercache:
                self._peercache[e] = len(self._peercache)
                self.peer_atoms.add(a)
                P = Lin.atom(a)
                self.pr.assume_ge0(P)
                self.pr.assume_le(P, Lin.atom("L") - 1)
            return a
        if e[0] == "b" and e[1] in ("urem", "srem"):   # operands are non-negative index values
            if e in self._modcache:
                return self._modcache[e]
            if self.lin(e[4]) == Lin.atom("L"):
                a = "mod#%d" % len(self.mods)
                self._modcache[e] = a
                self.mods.append((a, self.lin(e[3])))
                self.pr.assume_ge0(Lin.atom(a))
                self.pr.assume_le(Lin.atom(a), Lin.atom("L") - 1)
                return a
        return None

    def lin(self, e):
        return expr_to_lin(e, self.atom_of, self.pr, self.notes)

    def add_cond(self, c, taken):
        """Add a branch condition as hypothesis when it is a comparison of linear forms."""
        c = strip_casts(c)
        if c[0] != "icmp":
            return False
        pred, a, b = c[1], self.lin(c[2]), self.lin(c[3])
        if not taken:
            pred = {"eq": "ne", "ne": "eq", "ult": "uge", "uge": "ult", "ugt": "ule", "ule": "ugt",
                    "slt": "sge", "sge": "slt", "sgt": "sle", "sle": "sgt"}[pred]
        pred = pred[1:] if pred[0] in "us" and len(pred) == 3 else pred
        if pred == "eq":
            self.pr.assume_eq(a, b)
        elif pred == "ne":
            self.pr.assume_ne(a, b)
        elif pred == "lt":
            self.pr.assume_lt(a, b)
        elif pred == "le":
            self.pr.assume_le(a, b)
        elif pred == "gt":
            self.pr.assume_lt(b, a)
        elif pred == "ge":
            self.pr.assume_le(b, a)
        return True

    # ---- case analysis over the `x mod L` atoms -----------------------------------
    def cases(self):
        """Provers for each feasible combination of (X < L | L <= X < 2L) per mod atom;
        second component False if the residual case X >= 2L is feasible (then nothing is known)."""
        from itertools import product
        Lh = Lin.atom("L")
        outs = []
        complete = True
        for choice in product((0, 1), repeat=len(self.mods)):
            pr = self.pr.clone()
            for c, (a, X) in zip(choice, self.mods):
                if c == 0:
                    pr.assume_le(X, Lh - 1)
                    pr.assume_eq(Lin.atom(a), X)
                else:
                    pr.assume_le(Lh, X)
                    pr.assume_le(X, Lh.scale(2) - 1)
                    pr.assume_eq(Lin.atom(a), X - Lh)
            if not pr.infeasible():
                outs.append(pr)
        for a, X in self.mods:
            pr = self.pr.clone()
            pr.assume_le(Lh.scale(2), X)
            if not pr.infeasible():
                complete = False
        return outs, complete

    def infeasible(self):
        outs, complete = self.cases()
        return complete and not outs

    def prove_all(self, goal):
        """goal(prover) -> bool must hold in every feasible case."""
        outs, complete = self.cases()
        return complete and all(goal(pr) for pr in outs)

    def search(self, bad):
        """Concrete environments (small values) satisfying all hypotheses for which bad(env) holds.
        Atoms the rule did not name (results of unrelated loads / RMWs) are independent inputs and are
        enumerated over 0..4 as well (at most three of them, otherwise no refutation is attempted)."""
        from itertools import product
        names = ["own", "L"] + sorted(self.peer_atoms)
        doms = [range(0, 5), range(self.min_len, 6)] + [range(0, 5)] * len(self.peer_atoms)
        known = set(names) | set(a for a, _ in self.mods)
        used = set().union(*[h.atoms() for h in self.pr.hyps + self.pr.neqs]) if (self.pr.hyps or self.pr.neqs) else set()
        for _, X in self.mods:
            used |= X.atoms()
        opaque = sorted((a for a in used if a not in known), key=str)
        if len(opaque) > 3:
            return None
        # an expression this model could not linearise is an independent input only if it does not depend on the index, the length
        # or the peer's index; otherwise its value is tied to theirs and no assignment found here is a counterexample
        from ..paths import subexprs, eval_concrete, NoValue
        def free_leaf(a):
            # an input of the term that the model does not name (the result of an atomic RMW, an unrelated load, a call): with
            # such an input the term is not determined by the index and the length
            for x in subexprs(a):
                if isinstance(x, tuple) and x and x[0] in ("ld", "ald", "rmw", "call", "arg", "sym", "cx", "cxres") and \
                        self.classify(x) not in ("own", "L", "peer"):
                    if not any(self.classify(y) in ("own", "L", "peer") for y in subexprs(x) if isinstance(y, tuple) and y is not x and y[0] in ("ld", "ald")) or x[0] in ("rmw", "call", "cx", "cxres"):
                        return True
            return False
        tied = [a for a in opaque if isinstance(a, tuple) and not free_leaf(a) and
                any(self.classify(x) in ("own", "L", "peer") for x in subexprs(a) if isinstance(x, tuple))]
        opaque = [a for a in opaque if a not in tied]
        names += opaque
        doms += [range(0, 5)] * len(opaque)
        for vals in product(*doms):
            env = dict(zip(names, vals))
            try:
                for a, X in self.mods:
                    env[a] = X.eval(env) % env["L"]
            except KeyError:
                return None
            if tied:
                # a term the model could not linearise but which is a function of the named values: its exact value
                cenv = {e_: env[n_] for e_, n_ in getattr(self, "_named", {}).items() if n_ in env}
                try:
                    for a in tied:
                        env[a] = eval_concrete(a, cenv)
                except NoValue:
                    return None
            if all(h.eval(env) >= 0 for h in self.pr.hyps) and all(h.eval(env) != 0 for h in self.pr.neqs):
                try:
                    if bad(env):
                        return {k: v for k, v in env.items() if isinstance(k, str)}
                except KeyError:
                    return None
        return None

    def decide(self, goal, bad):
        if self.prove_all(goal):
            return "proved"
        env = self.search(bad)
        if env is not None:
            return ("refuted", env)
        return "unknown"

    def decide_ge0(self, target):
        return self.decide(lambda pr: pr.prove_ge0(target), lambda env: target.eval(env) < 0)

    def decide_in_range(self, v):
        return self.decide_ge0(v), self.decide_ge0(Lin.atom("L") - 1 - v)

    def decide_eq(self, a, b):
        return self.decide(lambda pr: pr.prove_eq(a, b), lambda env: a.eval(env) != b.eval(env))

    def decide_is_predecessor(self, v):
        """v == (own - 1) mod L: the same ring walked the other way round."""
        O, Lh = Lin.atom("own"), Lin.atom("L")

        def goal(pr):
            p1 = pr.clone()
            p1.assume_le(Lin.const(1), O)
            p2 = pr.clone()
            p2.assume_le(O, Lin.const(0))
            return (p1.infeasible() or p1.prove_eq(v, O - 1)) and (p2.infeasible() or p2.prove_eq(v, Lh - 1))
        return self.decide(goal, lambda env: v.eval(env) != (env["own"] - 1) % env["L"])

    def decide_is_step(self, v):
        """('proved', +1 | -1) if v is own + 1 or own - 1 modulo L for every admissible state, else the verdict for + 1."""
        up = self.decide_is_successor(v)
        if up == "proved":
            return up, 1
        down = self.decide_is_predecessor(v)
        if down == "proved":
            return down, -1
        return up, 1

    def decide_is_successor(self, v):
        """v == (own + 1) mod L."""
        O, Lh = Lin.atom("own"), Lin.atom("L")

        def goal(pr):
            p1 = pr.clone()
            p1.assume_lt(O + 1, Lh)
            p2 = pr.clone()
            p2.assume_le(Lh, O + 1)
            return (p1.infeasible() or p1.prove_eq(v, O + 1)) and (p2.infeasible() or p2.prove_eq(v, O + 1 - Lh))
        return self.decide(goal, lambda env: v.eval(env) != (env["own"] + 1) % env["L"])


