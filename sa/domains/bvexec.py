"""Abstract interpretation of integer-only LLVM IR functions in the BDD bit-vector domain.

Every SSA value is a vector of BDDs over the input bits.  Control flow is followed path by path with a
BDD path condition (infeasible branches are pruned exactly); at returns the value is merged with
ite(path condition, value, ...).  The result is the exact function computed by the code for ALL inputs.
Outside the fragment (memory, floating point, unbounded loops) the interpreter raises Top -> inconclusive.
"""
from ..ir import int_bits


class Top(Exception):
    pass


class BVExec:
    def __init__(self, module, bv, max_steps=400000, max_paths=20000):
        self.m = module
        self.bv = bv
        self.b = bv.b
        self.max_steps = max_steps
        self.max_paths = max_paths
        self.steps = 0
        self.paths = 0
        self.summary = {}

    def val(self, v, env):
        if v.k == "int":
            return self.bv.const(v.uval, int_bits(v.ty))
        if v.k in ("inst", "arg"):
            r = env.get(v.name)
            if r is None:
                raise Top("value %s not available" % v.name)
            return r
        if v.k == "undef":
            return self.bv.const(0, int_bits(v.ty) or 1)
        if v.k == "global":
            g = self.m.globals.get(v.name)
            if g is not None and not g.get("const") and int_bits(g.get("ty", "")):
                # a mutable scalar with static storage: a cell whose content on entry is unknown (fresh, unconstrained bits) -
                # if it reaches the result the comparison with the specification fails, if it does not it is harmless
                return ("cell", "@" + v.name)
        raise Top("operand kind %s" % v.k)

    def run(self, fn, args):
        """-> (result bits or None, defined condition BDD)"""
        env = {a.name: x for a, x in zip(fn.args, args)}
        self.result = None
        self.defined = 0
        res = {"bits": None, "defined": 0}
        stack = [(fn.entry, None, env, 1)]
        while stack:
            blk, pred, env, pc = stack.pop()
            self.paths += 1
            if self.paths > self.max_paths:
                raise Top("path bound exceeded")
            env = dict(env)
            # phis simultaneously
            newvals = {}
            for i in blk.insts:
                if i.op != "phi":
                    break
                for v, b in i.incoming:
                    if pred is not None and b == pred.name:
                        newvals[i.name] = self.val(v, env)
            env.update(newvals)
            done = False
            for i in blk.insts:
                if i.op == "phi" or i.is_dbg():
                    continue
                self.steps += 1
                if self.steps > self.max_steps:
                    raise Top("step bound exceeded")
                op = i.op
                if op == "br":
                    if i.cond is None:
                        stack.append((fn.blocks[i.succs[0]], blk, env, pc))
                    else:
                        c = self.val(i.cond, env)[0]
                        t = self.b.AND(pc, c)
                        f = self.b.AND(pc, self.b.NOT(c))
                        if f != 0:
                            stack.append((fn.blocks[i.succs[1]], blk, env, f))
                        if t != 0:
                            stack.append((fn.blocks[i.succs[0]], blk, env, t))
                    done = True
                    break
                if op == "switch":
                    x = self.val(i.cond, env)
                    rest = pc
                    for cv, bname in i["cases"]:
                        c = self.bv.eq(x, self.bv.const(cv, len(x)))
                        t = self.b.AND(pc, c)
                        rest = self.b.AND(rest, self.b.NOT(c))
                        if t != 0:
                            stack.append((fn.blocks[bname], blk, env, t))
                    if rest != 0:
                        stack.append((fn.blocks[i["default"]], blk, env, rest))
                    done = True
                    break
                if op == "ret":
                    if i.ops:
                        v = self.val(i.ops[0], env)
                        res["bits"] = v if res["bits"] is None else self.bv.mux(pc, v, res["bits"])
                    res["defined"] = self.b.OR(res["defined"], pc)
                    done = True
                    break
                if op == "unreachable":
                    done = True
                    break
                self.step(i, env, pc)
            if not done:
                raise Top("block without terminator")
        return res["bits"], res["defined"]

    def step(self, i, env, pc):
        op = i.op
        bv = self.bv
        n = int_bits(i.ty)
        if op in ("add", "sub", "mul", "and", "or", "xor"):
            a, b = self.val(i.ops[0], env), self.val(i.ops[1], env)
            env[i.name] = {"add": bv.add, "sub": bv.sub, "mul": bv.mul, "and": bv.AND, "or": bv.OR, "xor": bv.XOR}[op](a, b)
        elif op in ("shl", "lshr", "ashr"):
            a, s = self.val(i.ops[0], env), self.val(i.ops[1], env)
            if bv.is_const(s):
                k = bv.to_int(s)
                env[i.name] = {"shl": bv.shl, "lshr": bv.lshr, "ashr": bv.ashr}[op](a, k)
            else:
                env[i.name] = bv.var_shift(a, s, op)
        elif op in ("udiv", "urem", "sdiv", "srem"):
            a, d = self.val(i.ops[0], env), self.val(i.ops[1], env)
            if bv.is_const(d) and op in ("udiv", "urem"):
                dv = bv.to_int(d)
                if dv and dv & (dv - 1) == 0:
                    k = dv.bit_length() - 1
                    env[i.name] = bv.lshr(a, k) if op == "udiv" else bv.AND(a, bv.const(dv - 1, len(a)))
                    return
            raise Top("division in %s" % i.loc)
        elif op == "zext":
            env[i.name] = bv.zext(self.val(i.ops[0], env), n)
        elif op == "sext":
            env[i.name] = bv.sext(self.val(i.ops[0], env), n)
        elif op == "trunc":
            env[i.name] = bv.trunc(self.val(i.ops[0], env), n)
        elif op == "icmp":
            a, b = self.val(i.ops[0], env), self.val(i.ops[1], env)
            p = i.pred
            B = self.b
            r = {"eq": lambda: bv.eq(a, b), "ne": lambda: B.NOT(bv.eq(a, b)),
                 "ult": lambda: bv.ult(a, b), "ugt": lambda: bv.ult(b, a),
                 "ule": lambda: B.NOT(bv.ult(b, a)), "uge": lambda: B.NOT(bv.ult(a, b)),
                 "slt": lambda: bv.slt(a, b), "sgt": lambda: bv.slt(b, a),
                 "sle": lambda: B.NOT(bv.slt(b, a)), "sge": lambda: B.NOT(bv.slt(a, b))}[p]()
            env[i.name] = [r]
        elif op == "select":
            c = self.val(i.ops[0], env)[0]
            env[i.name] = bv.mux(c, self.val(i.ops[1], env), self.val(i.ops[2], env))
        elif op == "call":
            cal = i.callee
            if cal is None:
                raise Top("indirect call")
            if cal.startswith("llvm.ctpop"):
                env[i.name] = bv.popcount(self.val(i.args[0], env), n)
            elif cal.startswith("llvm.cttz") or cal.startswith("llvm.ctlz"):
                x = self.val(i.args[0], env)
                res = bv.const(len(x), n)
                order = range(len(x) - 1, -1, -1) if cal.startswith("llvm.cttz") else range(len(x))
                for k in order:
                    cnt = k if cal.startswith("llvm.cttz") else len(x) - 1 - k
                    res = bv.mux(x[k], bv.const(cnt, n), res)
                env[i.name] = res
            elif cal.startswith("llvm.is.constant"):
                env[i.name] = [0]
            elif cal.startswith("llvm.expect"):
                env[i.name] = self.val(i.args[0], env)
            elif cal.startswith("llvm.bswap"):
                x = self.val(i.args[0], env)
                by = [x[k:k + 8] for k in range(0, len(x), 8)]
                env[i.name] = sum(reversed(by), [])
            elif cal.startswith("llvm."):
                if i.name:
                    raise Top("intrinsic %s" % cal)
            elif self.m.has_fn(cal):
                callee = self.m.functions[cal]
                args = [self.val(a, env) for a in i.args]
                key = (cal, tuple(tuple(a) for a in args))
                if key not in self.summary:
                    sub = BVExec(self.m, self.bv, self.max_steps, self.max_paths)
                    self.summary[key] = sub.run(callee, args)
                bits, defined = self.summary[key]
                if self.b.AND(pc, self.b.NOT(defined)) != 0:
                    raise Top("callee %s is not defined on every value reaching it" % cal)
                if i.name:
                    env[i.name] = bits
            else:
                # noreturn assertion handlers end the path at the following 'unreachable'
                if i.name:
                    raise Top("call of external function %s" % cal)
        elif op == "alloca":
            # a scalar local (union punning, a promoted-out temporary): one cell, written and read whole
            env[i.name] = ("cell", i.name)
            env[("mem", i.name)] = None
        elif op == "bitcast":
            v = self.val(i.ops[0], env)
            if isinstance(v, tuple) and v[0] == "cell":
                env[i.name] = v
            elif i.ty in ("float", "i32") and isinstance(v, list) and len(v) == 32:
                env[i.name] = v            # float <-> i32 pattern
            elif i.ty in ("double", "i64") and isinstance(v, list) and len(v) == 64:
                env[i.name] = v
            else:
                raise Top("bitcast at %s" % i.loc)
        elif op == "getelementptr":
            base = i.ops[0]
            if base.k == "global":
                # element of a constant integer table: (table, subscript vector)
                from ..paths import const_table
                t = const_table(self.m, base.name)
                if t is None or len(i.ops) != 3 or not (i.ops[1].k == "int" and i.ops[1].uval == 0):
                    raise Top("address of %s at %s (not a constant integer table)" % (base.name, i.loc))
                env[i.name] = ("tbl", base.name, self.val(i.ops[2], env))
                return
            v = self.val(i.ops[0], env)
            if isinstance(v, tuple) and v[0] == "cell" and all(o.k == "int" and o.uval == 0 for o in i.ops[1:]):
                env[i.name] = v
            else:
                raise Top("address arithmetic at %s (outside the integer-only fragment)" % i.loc)
        elif op == "store":
            pv = self.val(i.ops[1], env)
            v = self.val(i.ops[0], env)
            if not (isinstance(pv, tuple) and pv[0] == "cell") or not isinstance(v, list):
                raise Top("store at %s (outside the integer-only fragment)" % i.loc)
            env[("mem", pv[1])] = v
        elif op == "load":
            pv = self.val(i.ops[0], env)
            if isinstance(pv, tuple) and pv[0] == "tbl":
                from ..paths import const_table
                vals, w = const_table(self.m, pv[1])
                idx = pv[2]
                if n != w:
                    raise Top("load of width %s from table %s of i%d at %s" % (n, pv[1], w, i.loc))
                res = bv.const(0, w)
                inside = 0
                for k, v in enumerate(vals):
                    if k >> len(idx):
                        break
                    hit = bv.eq(idx, bv.const(k, len(idx)))
                    inside = self.b.OR(inside, hit)
                    res = bv.mux(hit, bv.const(v, w), res)
                if self.b.AND(pc, self.b.NOT(inside)) != 0:
                    raise Top("table %s can be indexed out of range at %s" % (pv[1], i.loc))
                env[i.name] = res
                return
            if not (isinstance(pv, tuple) and pv[0] == "cell"):
                raise Top("load at %s (outside the integer-only fragment)" % i.loc)
            cur = env.get(("mem", pv[1]))
            want = int_bits(i.ty) or {"float": 32, "double": 64}.get(i.ty)
            if cur is None and pv[1].startswith("@") and want:
                if not hasattr(self, "fresh"):
                    self.fresh = {}
                if pv[1] not in self.fresh:
                    self.fresh[pv[1]] = bv.inputs(512 + 64 * len(self.fresh), want)
                cur = self.fresh[pv[1]]
            if cur is None or want is None or len(cur) != want:
                raise Top("load at %s of a local that was not written whole with the same width" % i.loc)
            env[i.name] = cur
        elif op == "uitofp" and i.ty == "float":
            env[i.name] = uitofp32(bv, self.val(i.ops[0], env))
        elif op == "uitofp" and i.ty == "double" and len(self.val(i.ops[0], env)) <= 53:
            env[i.name] = uitofp64_exact(bv, self.val(i.ops[0], env))
        else:
            raise Top("opcode %s" % op)


def uitofp32(bv, x):
    """IEEE-754 binary32 pattern of an unsigned integer (<= 32 bits) converted with round-to-nearest-even (the default
    rounding mode; the conversion is exact below 2^24)."""
    n = len(x)
    B = bv.b
    res = bv.const(0, 32)
    higher_zero = 1
    for p in range(n - 1, -1, -1):
        is_msb = B.AND(x[p], higher_zero)
        higher_zero = B.AND(higher_zero, B.NOT(x[p]))
        exp = 127 + p
        if p <= 23:
            mant = bv.trunc(bv.shl(bv.zext(x, 32), 23 - p), 23)
            pat = mant + bv.const(exp, 9)
        else:
            sh = p - 23
            m = bv.trunc(bv.lshr(bv.zext(x, 32), sh), 24) + [0]       # 25 bits, leading one at bit 23
            rem = x[:sh]
            half = rem[sh - 1]
            rest = 0
            for b in rem[:sh - 1]:
                rest = B.OR(rest, b)
            up = B.AND(half, B.OR(rest, m[0]))
            m2 = bv.add(m, [up] + [0] * 24)
            carry = m2[24]
            mant = bv.mux(carry, bv.const(0, 23), m2[:23])
            e = bv.mux(carry, bv.const(exp + 1, 9), bv.const(exp, 9))
            pat = mant + e
        res = bv.mux(is_msb, pat, res)
    return res


def uitofp64_exact(bv, x):
    """IEEE-754 binary64 pattern of an unsigned integer of at most 53 bits (always exact)."""
    n = len(x)
    B = bv.b
    res = bv.const(0, 64)
    higher_zero = 1
    for p in range(n - 1, -1, -1):
        is_msb = B.AND(x[p], higher_zero)
        higher_zero = B.AND(higher_zero, B.NOT(x[p]))
        mant = bv.trunc(bv.shl(bv.zext(x, 64), 52 - p), 52)
        res = bv.mux(is_msb, mant + bv.const(1023 + p, 12), res)
    return res


def expr_bv(e, bv, atom, bits_hint=32):
    """Convert a paths.py expression into a BDD bit-vector. atom(expr) -> vector or None names the inputs."""
    a = atom(e)
    if a is not None:
        return a
    k = e[0]
    if k == "c":
        return bv.const(e[2], e[1])
    if k == "cast":
        x = expr_bv(e[4], bv, atom, e[2] or bits_hint)
        if e[1] == "zext":
            return bv.zext(x[:e[2]] if e[2] else x, e[3])
        if e[1] == "sext":
            return bv.sext(x[:e[2]] if e[2] else x, e[3])
        if e[1] == "trunc":
            return bv.trunc(x, e[3])
        raise Top("cast %s" % e[1])
    if k == "b":
        op, bits = e[1], e[2]
        x, y = expr_bv(e[3], bv, atom, bits), expr_bv(e[4], bv, atom, bits)
        if op in ("add", "sub", "mul", "and", "or", "xor"):
            return {"add": bv.add, "sub": bv.sub, "mul": bv.mul, "and": bv.AND, "or": bv.OR, "xor": bv.XOR}[op](x, y)
        if op in ("shl", "lshr", "ashr"):
            if bv.is_const(y):
                return {"shl": bv.shl, "lshr": bv.lshr, "ashr": bv.ashr}[op](x, bv.to_int(y))
            return bv.var_shift(x, y, op)
        if op in ("udiv", "urem") and bv.is_const(y):
            d = bv.to_int(y)
            if d and d & (d - 1) == 0:
                sh = d.bit_length() - 1
                return bv.lshr(x, sh) if op == "udiv" else bv.AND(x, bv.const(d - 1, len(x)))
        if op == "sdiv" and bv.is_const(y):
            d = bv.to_int(y)
            if d and d & (d - 1) == 0:
                # truncating signed division by 2^k: (x + ((x >>s 31) & (d-1))) >>s k
                sh = d.bit_length() - 1
                n = len(x)
                bias = bv.AND(bv.ashr(x, n - 1), bv.const(d - 1, n))
                return bv.ashr(bv.add(x, bias), sh)
        raise Top("operator %s" % op)
    if k == "icmp":
        x, y = expr_bv(e[2], bv, atom), expr_bv(e[3], bv, atom)
        B = bv.b
        p = e[1]
        r = {"eq": lambda: bv.eq(x, y), "ne": lambda: B.NOT(bv.eq(x, y)), "ult": lambda: bv.ult(x, y), "ugt": lambda: bv.ult(y, x),
             "ule": lambda: B.NOT(bv.ult(y, x)), "uge": lambda: B.NOT(bv.ult(x, y)), "slt": lambda: bv.slt(x, y), "sgt": lambda: bv.slt(y, x),
             "sle": lambda: B.NOT(bv.slt(y, x)), "sge": lambda: B.NOT(bv.slt(x, y))}[p]()
        return [r]
    if k == "sel":
        c = expr_bv(e[1], bv, atom)[0]
        return bv.mux(c, expr_bv(e[2], bv, atom), expr_bv(e[3], bv, atom))
    raise Top("expression %s" % (e[0],))
