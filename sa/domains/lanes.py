"""ByteLane domain: an integer is a vector of byte lanes.

lane value:  ("src", name, k)  byte k of source `name`
             0                 zero byte
             ("sign", name)    copies of the sign bit of source `name`
             None              unknown (top)
Exact for shifts by multiples of 8, masks with 0x00/0xff bytes, zext/sext/trunc, `or` of
values whose non-zero lanes are disjoint.  Anything else yields top lanes.
"""

TOP = None


def lanes_of(e, src_of, nlanes=8):
    """Abstract an expression (paths.py form). src_of(expr) -> (name, nbytes) names sources."""
    s = src_of(e)
    if s is not None:
        name, nbytes = s
        return [("src", name, k) for k in range(nbytes)]
    k = e[0]
    if k == "c":
        n = max(1, e[1] // 8)
        out = []
        for i in range(n):
            b = (e[2] >> (8 * i)) & 0xff
            out.append(0 if b == 0 else ("const", b))
        return out
    if k == "cast":
        op, fb, tb, a = e[1], e[2], e[3], e[4]
        la = lanes_of(a, src_of, nlanes)
        nf, nt = max(1, fb // 8), max(1, tb // 8)
        la = (la + [TOP] * nf)[:nf]
        if op == "trunc":
            return la[:nt]
        if op == "zext":
            return la + [0] * (nt - nf)
        if op == "sext":
            top = la[nf - 1]
            if top == 0:
                fill = 0
            elif isinstance(top, tuple) and top[0] == "src":
                fill = ("sign", top[1], top[2])
            elif isinstance(top, tuple) and top[0] == "sign":
                fill = top
            else:
                fill = TOP
            return la + [fill] * (nt - nf)
        return [TOP] * nt
    if k == "b":
        op, bits, x, y = e[1], e[2], e[3], e[4]
        n = max(1, bits // 8)
        lx = (lanes_of(x, src_of, nlanes) + [TOP] * n)[:n]
        if op in ("lshr", "ashr", "shl") and y[0] == "c" and y[2] % 8 == 0:
            j = y[2] // 8
            if op == "shl":
                return ([0] * j + lx)[:n]
            if op == "lshr":
                return (lx[j:] + [0] * j)[:n]
            top = lx[n - 1]
            if top == 0:
                fill = 0
            elif isinstance(top, tuple) and top[0] == "sign":
                fill = top
            elif isinstance(top, tuple) and top[0] == "src":
                fill = ("sign", top[1], top[2])
            else:
                fill = TOP
            return (lx[j:] + [fill] * j)[:n]
        ly = (lanes_of(y, src_of, nlanes) + [TOP] * n)[:n]
        if op == "and":
            out = []
            for a, b in zip(lx, ly):
                if a == 0 or b == 0:
                    out.append(0)
                elif b == ("const", 0xff):
                    out.append(a)
                elif a == ("const", 0xff):
                    out.append(b)
                else:
                    out.append(TOP)
            return out
        if op in ("or", "xor", "add"):
            out = []
            for a, b in zip(lx, ly):
                if a == 0:
                    out.append(b)
                elif b == 0:
                    out.append(a)
                else:
                    out.append(TOP)
            return out
        return [TOP] * n
    return [TOP]
