"""Linear forms over named integer atoms and a tiny exact entailment checker.

A LinForm is {atom: Fraction coefficient} plus a constant.  `Prover` holds
hypotheses of the form  form >= 0  (and disequalities form != 0) and decides
`target >= 0` by searching a Farkas certificate: target = sum(l_i * h_i) + c
with l_i >= 0, c >= 0, using at most as many hypotheses as there are atoms
(exact rational arithmetic; complete for the small systems used here up to the
subset bound).  Integer tightening: a strict hypothesis h > 0 is stored as
h - 1 >= 0.  No solver is used.  `refute` looks for a small concrete
counterexample by bounded enumeration of atom values, so that a failure to
prove is reported as a violation only with a witness, otherwise as inconclusive.
"""
from fractions import Fraction
from itertools import combinations, product


class Lin:
    __slots__ = ("co", "c")

    def __init__(self, co=None, c=0):
        self.co = {k: Fraction(v) for k, v in (co or {}).items() if v != 0}
        self.c = Fraction(c)

    @staticmethod
    def atom(a):
        return Lin({a: 1}, 0)

    @staticmethod
    def const(c):
        return Lin({}, c)

    def __add__(self, o):
        o = o if isinstance(o, Lin) else Lin.const(o)
        co = dict(self.co)
        for k, v in o.co.items():
            co[k] = co.get(k, 0) + v
        return Lin(co, self.c + o.c)

    def __neg__(self):
        return Lin({k: -v for k, v in self.co.items()}, -self.c)

    def __sub__(self, o):
        o = o if isinstance(o, Lin) else Lin.const(o)
        return self + (-o)

    def scale(self, k):
        k = Fraction(k)
        return Lin({a: v * k for a, v in self.co.items()}, self.c * k)

    def is_const(self):
        return not self.co

    def atoms(self):
        return set(self.co)

    def eval(self, env):
        return sum(v * env[k] for k, v in self.co.items()) + self.c

    def key(self):
        return (tuple(sorted((str(k), v) for k, v in self.co.items())), self.c)

    def __eq__(self, o):
        return isinstance(o, Lin) and self.co == o.co and self.c == o.c

    def __hash__(self):
        return hash(self.key())

    def __repr__(self):
        parts = []
        for k, v in sorted(self.co.items(), key=lambda kv: str(kv[0])):
            if v == 1:
                parts.append("%s" % (k,))
            elif v == -1:
                parts.append("-%s" % (k,))
            else:
                parts.append("%s*%s" % (v, k))
        if self.c != 0 or not parts:
            parts.append(str(self.c))
        return " + ".join(parts).replace("+ -", "- ")


def _solve(A, b):
    """Solve square system A x = b exactly; returns list or None if singular."""
    n = len(A)
    M = [list(map(Fraction, A[i])) + [Fraction(b[i])] for i in range(n)]
    for col in range(n):
        piv = None
        for r in range(col, n):
            if M[r][col] != 0:
                piv = r
                break
        if piv is None:
            return None
        M[col], M[piv] = M[piv], M[col]
        pv = M[col][col]
        M[col] = [x / pv for x in M[col]]
        for r in range(n):
            if r != col and M[r][col] != 0:
                f = M[r][col]
                M[r] = [x - f * y for x, y in zip(M[r], M[col])]
    return [M[i][n] for i in range(n)]


class Prover:
    def __init__(self):
        self.hyps = []      # Lin >= 0
        self.neqs = []      # Lin != 0
        self.log = []

    def clone(self):
        p = Prover()
        p.hyps = list(self.hyps)
        p.neqs = list(self.neqs)
        return p

    def assume_ge0(self, f):
        self.hyps.append(f)

    def assume_le(self, a, b):
        self.hyps.append(b - a)

    def assume_lt(self, a, b):
        self.hyps.append(b - a - 1)

    def assume_eq(self, a, b):
        self.hyps.append(a - b)
        self.hyps.append(b - a)

    def assume_ne(self, a, b):
        self.neqs.append(a - b)

    @staticmethod
    def _infeasible(cons):
        """Rational infeasibility of {c >= 0 for c in cons} by Fourier-Motzkin elimination (exact)."""
        cons = list(cons)
        atoms = sorted(set().union(*[c.atoms() for c in cons]), key=str) if cons else []
        for a in atoms:
            pos, neg, rest = [], [], []
            for c in cons:
                k = c.co.get(a, 0)
                (pos if k > 0 else neg if k < 0 else rest).append(c)
            new = rest
            for p in pos:
                for n in neg:
                    kp, kn = p.co[a], -n.co[a]
                    comb = p.scale(kn) + n.scale(kp)
                    comb.co.pop(a, None)
                    new.append(comb)
            # drop duplicates to keep the system small
            seen = {}
            for c in new:
                seen[c.key()] = c
            cons = list(seen.values())
            if len(cons) > 4000:
                return False    # give up: treated as "not proved"
        return any(c.c < 0 for c in cons if c.is_const())

    def _farkas(self, target, hyps):
        """Is target >= 0 entailed by hyps (all >= 0) over the integers?  Sound: checks that
        hyps together with target <= -1 have no rational solution."""
        return self._infeasible(list(hyps) + [(-target) - 1])

    def _branches(self):
        """Expand disequalities into the 2^k systems (k is tiny)."""
        outs = []
        for signs in product((1, -1), repeat=len(self.neqs)):
            hs = list(self.hyps)
            for s, f in zip(signs, self.neqs):
                hs.append((f if s == 1 else -f) - 1)   # f >= 1  or  -f >= 1
            outs.append(hs)
        return outs

    def prove_ge0(self, target):
        for hs in self._branches():
            if self._farkas(Lin.const(-1), hs):
                continue        # infeasible branch
            if not self._farkas(target, hs):
                return False
        return True

    def prove_le(self, a, b):
        return self.prove_ge0(b - a)

    def prove_lt(self, a, b):
        return self.prove_ge0(b - a - 1)

    def prove_eq(self, a, b):
        return self.prove_ge0(a - b) and self.prove_ge0(b - a)

    def infeasible(self):
        return all(self._farkas(Lin.const(-1), hs) for hs in self._branches())

    def refute_ge0(self, target, ranges):
        """Look for integer atom values satisfying all hypotheses with target < 0.
        ranges: {atom: iterable of candidate ints}. Returns env or None."""
        atoms = sorted(ranges, key=str)
        need = set().union(target.atoms(), *[h.atoms() for h in self.hyps], *[h.atoms() for h in self.neqs])
        if not need <= set(atoms):
            return None
        for vals in product(*[list(ranges[a]) for a in atoms]):
            env = dict(zip(atoms, vals))
            if all(h.eval(env) >= 0 for h in self.hyps) and all(h.eval(env) != 0 for h in self.neqs):
                if target.eval(env) < 0:
                    return env
        return None


def expr_to_lin(e, atom_of, prover=None, notes=None):
    """Convert a paths.py expression to a Lin over atoms.

    Integer conversions (zext/sext/trunc) are treated as value-preserving; a `sub`
    is accepted as mathematical subtraction only if `prover` shows it cannot go
    negative (no unsigned wrap), otherwise the whole sub-expression is an opaque atom.
    atom_of(expr) -> name or None lets the rule name the atoms it knows.
    """
    a = atom_of(e)
    if a is not None:
        return Lin.atom(a)
    k = e[0]
    if k == "c":
        return Lin.const(e[2])
    if k == "cast" and e[1] in ("zext", "sext", "trunc"):
        if notes is not None:
            notes.add("%s i%d->i%d treated as value-preserving" % (e[1], e[2], e[3]))
        return expr_to_lin(e[4], atom_of, prover, notes)
    if k == "b":
        op, bits, x, y = e[1], e[2], e[3], e[4]
        if op == "add":
            if y[0] == "c" and y[2] >> (bits - 1):
                # add of a negative constant == subtraction
                lx = expr_to_lin(x, atom_of, prover, notes)
                res = lx - ((1 << bits) - y[2])
                if prover is None or prover.prove_ge0(res):
                    return res
                return Lin.atom(e)
            return expr_to_lin(x, atom_of, prover, notes) + expr_to_lin(y, atom_of, prover, notes)
        if op == "sub":
            res = expr_to_lin(x, atom_of, prover, notes) - expr_to_lin(y, atom_of, prover, notes)
            if prover is None or prover.prove_ge0(res):
                return res
            return Lin.atom(e)
        if op == "mul":
            if y[0] == "c":
                return expr_to_lin(x, atom_of, prover, notes).scale(y[2])
            if x[0] == "c":
                return expr_to_lin(y, atom_of, prover, notes).scale(x[2])
        if op == "shl" and y[0] == "c":
            return expr_to_lin(x, atom_of, prover, notes).scale(1 << y[2])
    return Lin.atom(e)
