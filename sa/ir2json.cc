// ir2json: dump an LLVM-14 IR module as JSON facts for the Python rule engine.
//
// Walks the module with LLVM's own API (no textual parsing), so operands,
// inline constant expressions, struct layouts (DataLayout), atomic orderings
// and debug locations are exact.
//
// usage: ir2json in.ll out.json
#include "llvm/IR/Constants.h"
#include "llvm/IR/DataLayout.h"
#include "llvm/IR/DebugInfo.h"
#include "llvm/IR/DebugInfoMetadata.h"
#include "llvm/IR/Function.h"
#include "llvm/IR/GlobalVariable.h"
#include "llvm/IR/InstrTypes.h"
#include "llvm/IR/Instructions.h"
#include "llvm/IR/IntrinsicInst.h"
#include "llvm/IR/LLVMContext.h"
#include "llvm/IR/Module.h"
#include "llvm/IR/ModuleSlotTracker.h"
#include "llvm/IR/Operator.h"
#include "llvm/IRReader/IRReader.h"
#include "llvm/Support/SourceMgr.h"
#include "llvm/Support/raw_ostream.h"

#include <cstdio>
#include <map>
#include <set>
#include <string>
#include <vector>

using namespace llvm;

static std::string esc(StringRef s) {
  std::string o;
  for (unsigned char c : s) {
    switch (c) {
    case '"': o += "\\\""; break;
    case '\\': o += "\\\\"; break;
    case '\n': o += "\\n"; break;
    case '\t': o += "\\t"; break;
    case '\r': o += "\\r"; break;
    default:
      if (c < 0x20 || c >= 0x7f) {
        char b[8];
        snprintf(b, sizeof b, "\\u%04x", c);
        o += b;
      } else
        o += (char)c;
    }
  }
  return o;
}
static std::string q(StringRef s) { return "\"" + esc(s) + "\""; }

struct Dumper {
  Module &M;
  const DataLayout &DL;
  raw_ostream &OS;
  std::map<Type *, std::string> tyNames;
  std::vector<Type *> tyOrder;
  std::map<const DIType *, unsigned> diIds;
  std::vector<const DIType *> diOrder;
  ModuleSlotTracker MST;
  std::map<const Value *, std::string> localNames;

  Dumper(Module &m, raw_ostream &os)
      : M(m), DL(m.getDataLayout()), OS(os), MST(&m) {}

  std::string tyStr(Type *T) {
    auto it = tyNames.find(T);
    if (it != tyNames.end())
      return it->second;
    std::string s;
    raw_string_ostream ss(s);
    T->print(ss, false, true);
    ss.flush();
    tyNames[T] = s;
    tyOrder.push_back(T);
    // register sub types
    if (auto *PT = dyn_cast<PointerType>(T)) {
      if (!PT->isOpaque())
        tyStr(PT->getNonOpaquePointerElementType());
    } else if (auto *AT = dyn_cast<ArrayType>(T))
      tyStr(AT->getElementType());
    else if (auto *ST = dyn_cast<StructType>(T)) {
      for (Type *E : ST->elements())
        tyStr(E);
    } else if (auto *FT = dyn_cast<FunctionType>(T)) {
      tyStr(FT->getReturnType());
      for (Type *P : FT->params())
        tyStr(P);
    } else if (auto *VT = dyn_cast<VectorType>(T))
      tyStr(VT->getElementType());
    return s;
  }

  unsigned diId(const DIType *T) {
    if (!T)
      return 0;
    auto it = diIds.find(T);
    if (it != diIds.end())
      return it->second;
    unsigned id = diOrder.size() + 1;
    diIds[T] = id;
    diOrder.push_back(T);
    // register children (may grow diOrder while iterating by index later)
    if (auto *D = dyn_cast<DIDerivedType>(T))
      diId(D->getBaseType());
    else if (auto *C = dyn_cast<DICompositeType>(T)) {
      diId(C->getBaseType());
      for (auto *E : C->getElements())
        if (auto *ET = dyn_cast<DIType>(E))
          diId(ET);
    }
    return id;
  }

  std::string valName(const Value *V, const Function *F) {
    if (V->hasName())
      return "%" + V->getName().str();
    int s = MST.getLocalSlot(V);
    return "%" + std::to_string(s);
  }

  std::string apStr(const APInt &A, bool sgn) {
    SmallString<40> S;
    A.toString(S, 10, sgn);
    return std::string(S.str());
  }

  // JSON for an operand value
  std::string val(const Value *V, const Function *F) {
    std::string t = q(tyStr(V->getType()));
    if (auto *CI = dyn_cast<ConstantInt>(V)) {
      return "{\"k\":\"int\",\"ty\":" + t + ",\"v\":" + apStr(CI->getValue(), false) +
             ",\"sv\":" + apStr(CI->getValue(), true) + "}";
    }
    if (isa<ConstantPointerNull>(V))
      return "{\"k\":\"null\",\"ty\":" + t + "}";
    if (isa<UndefValue>(V))
      return "{\"k\":\"undef\",\"ty\":" + t + "}";
    if (auto *Fn = dyn_cast<Function>(V))
      return "{\"k\":\"func\",\"ty\":" + t + ",\"name\":" + q(Fn->getName()) + "}";
    if (auto *GV = dyn_cast<GlobalVariable>(V))
      return "{\"k\":\"global\",\"ty\":" + t + ",\"name\":" + q(GV->getName()) + "}";
    if (auto *GA = dyn_cast<GlobalAlias>(V))
      return "{\"k\":\"global\",\"ty\":" + t + ",\"name\":" + q(GA->getName()) + "}";
    if (auto *CE = dyn_cast<ConstantExpr>(V)) {
      std::string s = "{\"k\":\"cexpr\",\"ty\":" + t + ",\"op\":" + q(CE->getOpcodeName());
      if (auto *GEP = dyn_cast<GEPOperator>(CE)) {
        APInt Off(DL.getIndexSizeInBits(GEP->getPointerAddressSpace()), 0);
        if (GEP->accumulateConstantOffset(DL, Off))
          s += ",\"off\":" + apStr(Off, true);
        s += ",\"src_ty\":" + q(tyStr(GEP->getSourceElementType()));
      }
      if (CE->isCompare())
        s += ",\"pred\":" + q(CmpInst::getPredicateName((CmpInst::Predicate)CE->getPredicate()));
      s += ",\"ops\":[";
      for (unsigned i = 0; i < CE->getNumOperands(); i++) {
        if (i)
          s += ",";
        s += val(CE->getOperand(i), F);
      }
      s += "]}";
      return s;
    }
    if (auto *CDS = dyn_cast<ConstantDataSequential>(V)) {
      std::string s = "{\"k\":\"cdata\",\"ty\":" + t + ",\"elems\":[";
      for (unsigned i = 0; i < CDS->getNumElements(); i++) {
        if (i)
          s += ",";
        if (CDS->getElementType()->isIntegerTy())
          s += std::to_string(CDS->getElementAsInteger(i));
        else
          s += "null";
      }
      s += "]}";
      return s;
    }
    if (isa<ConstantAggregateZero>(V))
      return "{\"k\":\"zero\",\"ty\":" + t + "}";
    if (auto *CA = dyn_cast<ConstantAggregate>(V)) {
      std::string s = "{\"k\":\"cagg\",\"ty\":" + t + ",\"elems\":[";
      for (unsigned i = 0; i < CA->getNumOperands(); i++) {
        if (i)
          s += ",";
        s += val(CA->getOperand(i), F);
      }
      s += "]}";
      return s;
    }
    if (auto *CF = dyn_cast<ConstantFP>(V)) {
      SmallString<40> S;
      CF->getValueAPF().toString(S);
      return "{\"k\":\"fp\",\"ty\":" + t + ",\"v\":" + q(S) + "}";
    }
    if (auto *A = dyn_cast<Argument>(V))
      return "{\"k\":\"arg\",\"ty\":" + t + ",\"idx\":" + std::to_string(A->getArgNo()) +
             ",\"name\":" + q(valName(V, F)) + "}";
    if (isa<Instruction>(V))
      return "{\"k\":\"inst\",\"ty\":" + t + ",\"name\":" + q(valName(V, F)) + "}";
    if (auto *BB = dyn_cast<BasicBlock>(V))
      return "{\"k\":\"block\",\"name\":" + q(valName(BB, F)) + "}";
    if (isa<MetadataAsValue>(V))
      return "{\"k\":\"metadata\"}";
    if (isa<InlineAsm>(V))
      return "{\"k\":\"asm\"}";
    std::string s;
    raw_string_ostream ss(s);
    V->print(ss);
    return "{\"k\":\"other\",\"ty\":" + t + ",\"text\":" + q(ss.str()) + "}";
  }

  static const char *ordName(AtomicOrdering O) {
    switch (O) {
    case AtomicOrdering::NotAtomic: return "notatomic";
    case AtomicOrdering::Unordered: return "unordered";
    case AtomicOrdering::Monotonic: return "monotonic";
    case AtomicOrdering::Acquire: return "acquire";
    case AtomicOrdering::Release: return "release";
    case AtomicOrdering::AcquireRelease: return "acq_rel";
    case AtomicOrdering::SequentiallyConsistent: return "seq_cst";
    }
    return "?";
  }

  std::string syncScope(SyncScope::ID id) {
    SmallVector<StringRef, 4> names;
    M.getContext().getSyncScopeNames(names);
    if (id < names.size())
      return names[id].str();
    return std::to_string(id);
  }

  void dumpInst(const Instruction &I, const Function &F) {
    OS << "{\"op\":" << q(I.getOpcodeName());
    OS << ",\"ty\":" << q(tyStr(I.getType()));
    if (!I.getType()->isVoidTy())
      OS << ",\"name\":" << q(valName(&I, &F));
    if (const DebugLoc &L = I.getDebugLoc()) {
      OS << ",\"line\":" << L.getLine() << ",\"col\":" << L.getCol();
      if (auto *Sc = dyn_cast_or_null<DIScope>(L.getScope()))
        OS << ",\"file\":" << q(Sc->getFilename());
    }
    // call: separate callee from args
    if (auto *CB = dyn_cast<CallBase>(&I)) {
      const Value *Callee = CB->getCalledOperand()->stripPointerCasts();
      if (auto *Fn = dyn_cast<Function>(Callee)) {
        OS << ",\"callee\":" << q(Fn->getName());
        if (Fn->isIntrinsic())
          OS << ",\"intrinsic\":true";
      } else
        OS << ",\"callee_val\":" << val(CB->getCalledOperand(), &F);
      OS << ",\"fty\":" << q(tyStr(CB->getFunctionType()));
      OS << ",\"args\":[";
      for (unsigned i = 0; i < CB->arg_size(); i++) {
        if (i)
          OS << ",";
        OS << val(CB->getArgOperand(i), &F);
      }
      OS << "]";
      if (auto *DDI = dyn_cast<DbgVariableIntrinsic>(&I)) {
        if (auto *Var = DDI->getVariable()) {
          OS << ",\"dbgvar\":" << q(Var->getName());
          OS << ",\"dbgvar_ty\":" << diId(Var->getType());
          OS << ",\"dbgvar_arg\":" << Var->getArg();
        }
        if (Value *Loc = DDI->getVariableLocationOp(0))
          OS << ",\"dbgval\":" << val(Loc, &F);
      }
      OS << "}";
      return;
    }
    if (auto *PN = dyn_cast<PHINode>(&I)) {
      OS << ",\"incoming\":[";
      for (unsigned i = 0; i < PN->getNumIncomingValues(); i++) {
        if (i)
          OS << ",";
        OS << "[" << val(PN->getIncomingValue(i), &F) << ","
           << q(valName(PN->getIncomingBlock(i), &F)) << "]";
      }
      OS << "]}";
      return;
    }
    if (auto *BI = dyn_cast<BranchInst>(&I)) {
      if (BI->isConditional())
        OS << ",\"cond\":" << val(BI->getCondition(), &F);
      OS << ",\"succs\":[";
      for (unsigned i = 0; i < BI->getNumSuccessors(); i++) {
        if (i)
          OS << ",";
        OS << q(valName(BI->getSuccessor(i), &F));
      }
      OS << "]}";
      return;
    }
    if (auto *SI = dyn_cast<SwitchInst>(&I)) {
      OS << ",\"cond\":" << val(SI->getCondition(), &F);
      OS << ",\"default\":" << q(valName(SI->getDefaultDest(), &F));
      OS << ",\"cases\":[";
      bool first = true;
      for (auto &C : SI->cases()) {
        if (!first)
          OS << ",";
        first = false;
        OS << "[" << apStr(C.getCaseValue()->getValue(), false) << ","
           << q(valName(C.getCaseSuccessor(), &F)) << "]";
      }
      OS << "]}";
      return;
    }
    if (auto *LI = dyn_cast<LoadInst>(&I)) {
      OS << ",\"ordering\":" << q(ordName(LI->getOrdering()));
      OS << ",\"volatile\":" << (LI->isVolatile() ? "true" : "false");
      OS << ",\"align\":" << LI->getAlign().value();
      OS << ",\"size\":" << DL.getTypeStoreSize(LI->getType()).getFixedSize();
    } else if (auto *SI2 = dyn_cast<StoreInst>(&I)) {
      OS << ",\"ordering\":" << q(ordName(SI2->getOrdering()));
      OS << ",\"volatile\":" << (SI2->isVolatile() ? "true" : "false");
      OS << ",\"align\":" << SI2->getAlign().value();
      OS << ",\"size\":"
         << DL.getTypeStoreSize(SI2->getValueOperand()->getType()).getFixedSize();
    } else if (auto *RMW = dyn_cast<AtomicRMWInst>(&I)) {
      OS << ",\"rmwop\":" << q(AtomicRMWInst::getOperationName(RMW->getOperation()));
      OS << ",\"ordering\":" << q(ordName(RMW->getOrdering()));
      OS << ",\"volatile\":" << (RMW->isVolatile() ? "true" : "false");
      OS << ",\"size\":" << DL.getTypeStoreSize(RMW->getType()).getFixedSize();
    } else if (auto *CX = dyn_cast<AtomicCmpXchgInst>(&I)) {
      OS << ",\"ordering\":" << q(ordName(CX->getSuccessOrdering()));
      OS << ",\"failure_ordering\":" << q(ordName(CX->getFailureOrdering()));
      OS << ",\"weak\":" << (CX->isWeak() ? "true" : "false");
      OS << ",\"size\":"
         << DL.getTypeStoreSize(CX->getCompareOperand()->getType()).getFixedSize();
    } else if (auto *FI = dyn_cast<FenceInst>(&I)) {
      OS << ",\"ordering\":" << q(ordName(FI->getOrdering()));
      OS << ",\"syncscope\":" << q(syncScope(FI->getSyncScopeID()));
    } else if (auto *CI = dyn_cast<CmpInst>(&I)) {
      OS << ",\"pred\":" << q(CmpInst::getPredicateName(CI->getPredicate()));
    } else if (auto *GEP = dyn_cast<GetElementPtrInst>(&I)) {
      OS << ",\"src_ty\":" << q(tyStr(GEP->getSourceElementType()));
      OS << ",\"inbounds\":" << (GEP->isInBounds() ? "true" : "false");
      // array steps: [array length, constant index or null] for every index that subscripts an array type
      OS << ",\"arr_idx\":[";
      {
        bool firstA = true;
        Type *Cur = GEP->getSourceElementType();
        for (unsigned k = 1; k < GEP->getNumOperands(); k++) {
          Value *Idx = GEP->getOperand(k);
          if (k == 1)
            continue;   // pointer step: unbounded
          if (auto *ST = dyn_cast<StructType>(Cur)) {
            auto *CI = dyn_cast<ConstantInt>(Idx);
            if (!CI)
              break;
            Cur = ST->getElementType(CI->getZExtValue());
            continue;
          }
          if (auto *AT = dyn_cast<ArrayType>(Cur)) {
            if (!firstA)
              OS << ",";
            firstA = false;
            OS << "[" << AT->getNumElements() << ",";
            if (auto *CI = dyn_cast<ConstantInt>(Idx))
              OS << CI->getSExtValue();
            else
              OS << "null";
            OS << "]";
            Cur = AT->getElementType();
            continue;
          }
          break;
        }
      }
      OS << "]";
      unsigned BW = DL.getIndexSizeInBits(GEP->getPointerAddressSpace());
      MapVector<Value *, APInt> VarOffs;
      APInt COff(BW, 0);
      if (cast<GEPOperator>(GEP)->collectOffset(DL, BW, VarOffs, COff)) {
        OS << ",\"off\":" << apStr(COff, true);
        OS << ",\"var_offs\":[";
        bool first = true;
        for (auto &P : VarOffs) {
          if (!first)
            OS << ",";
          first = false;
          OS << "[" << val(P.first, &F) << "," << apStr(P.second, true) << "]";
        }
        OS << "]";
      }
    } else if (auto *AI = dyn_cast<AllocaInst>(&I)) {
      OS << ",\"alloc_ty\":" << q(tyStr(AI->getAllocatedType()));
      if (auto Sz = AI->getAllocationSizeInBits(DL))
        OS << ",\"alloc_size\":" << (Sz->getFixedSize() / 8);
    } else if (auto *EV = dyn_cast<ExtractValueInst>(&I)) {
      OS << ",\"indices\":[";
      for (unsigned i = 0; i < EV->getNumIndices(); i++)
        OS << (i ? "," : "") << EV->getIndices()[i];
      OS << "]";
    } else if (auto *IV = dyn_cast<InsertValueInst>(&I)) {
      OS << ",\"indices\":[";
      for (unsigned i = 0; i < IV->getNumIndices(); i++)
        OS << (i ? "," : "") << IV->getIndices()[i];
      OS << "]";
    }
    if (auto *OBO = dyn_cast<OverflowingBinaryOperator>(&I)) {
      if (OBO->hasNoSignedWrap())
        OS << ",\"nsw\":true";
      if (OBO->hasNoUnsignedWrap())
        OS << ",\"nuw\":true";
    }
    OS << ",\"ops\":[";
    for (unsigned i = 0; i < I.getNumOperands(); i++) {
      if (i)
        OS << ",";
      OS << val(I.getOperand(i), &F);
    }
    OS << "]}";
  }

  void dumpFunction(const Function &F) {
    MST.incorporateFunction(F);
    OS << "{\"name\":" << q(F.getName());
    OS << ",\"fty\":" << q(tyStr(F.getFunctionType()));
    OS << ",\"ret_ty\":" << q(tyStr(F.getReturnType()));
    OS << ",\"internal\":" << (F.hasLocalLinkage() ? "true" : "false");
    OS << ",\"varargs\":" << (F.isVarArg() ? "true" : "false");
    OS << ",\"decl\":" << (F.isDeclaration() ? "true" : "false");
    if (auto *SP = F.getSubprogram()) {
      OS << ",\"file\":" << q(SP->getFilename());
      OS << ",\"line\":" << SP->getLine();
    }
    OS << ",\"args\":[";
    for (auto &A : F.args()) {
      if (A.getArgNo())
        OS << ",";
      OS << "{\"name\":" << q(valName(&A, &F)) << ",\"ty\":" << q(tyStr(A.getType()));
      if (A.hasAttribute(Attribute::SExt))
        OS << ",\"ext\":\"sext\"";
      if (A.hasAttribute(Attribute::ZExt))
        OS << ",\"ext\":\"zext\"";
      OS << "}";
    }
    OS << "]";
    if (F.hasRetAttribute(Attribute::SExt))
      OS << ",\"ret_ext\":\"sext\"";
    if (F.hasRetAttribute(Attribute::ZExt))
      OS << ",\"ret_ext\":\"zext\"";
    OS << ",\"blocks\":[";
    bool firstB = true;
    for (auto &BB : F) {
      if (!firstB)
        OS << ",";
      firstB = false;
      OS << "\n {\"name\":" << q(valName(&BB, &F)) << ",\"insts\":[";
      bool firstI = true;
      for (auto &I : BB) {
        if (!firstI)
          OS << ",";
        firstI = false;
        OS << "\n  ";
        dumpInst(I, F);
      }
      OS << "]}";
    }
    OS << "]}";
  }

  void dumpDIType(const DIType *T) {
    OS << "{\"id\":" << diIds[T];
    OS << ",\"tag\":" << q(dwarf::TagString(T->getTag()));
    OS << ",\"name\":" << q(T->getName());
    OS << ",\"size\":" << T->getSizeInBits() / 8;
    OS << ",\"bits\":" << T->getSizeInBits();
    if (auto *B = dyn_cast<DIBasicType>(T)) {
      OS << ",\"enc\":" << q(dwarf::AttributeEncodingString(B->getEncoding()));
    } else if (auto *D = dyn_cast<DIDerivedType>(T)) {
      OS << ",\"base\":" << diId(D->getBaseType());
      OS << ",\"offset\":" << D->getOffsetInBits() / 8;
      OS << ",\"offset_bits\":" << D->getOffsetInBits();
    } else if (auto *C = dyn_cast<DICompositeType>(T)) {
      OS << ",\"base\":" << diId(C->getBaseType());
      OS << ",\"elems\":[";
      bool first = true;
      for (auto *E : C->getElements()) {
        if (!first)
          OS << ",";
        first = false;
        if (auto *ET = dyn_cast<DIType>(E))
          OS << diId(ET);
        else if (auto *SR = dyn_cast<DISubrange>(E)) {
          auto *CI = SR->getCount().dyn_cast<ConstantInt *>();
          OS << "{\"count\":" << (CI ? CI->getSExtValue() : -1) << "}";
        } else if (auto *EN = dyn_cast<DIEnumerator>(E)) {
          OS << "{\"enum\":" << q(EN->getName()) << ",\"v\":" << apStr(EN->getValue(), !EN->isUnsigned())
             << "}";
        } else
          OS << "null";
      }
      OS << "]";
    }
    OS << "}";
  }

  void run() {
    OS << "{\"source\":" << q(M.getSourceFileName());
    OS << ",\"datalayout\":" << q(DL.getStringRepresentation());
    OS << ",\"ptr_size\":" << DL.getPointerSize();
    // globals
    OS << ",\n\"globals\":[";
    bool first = true;
    for (auto &G : M.globals()) {
      if (!first)
        OS << ",";
      first = false;
      OS << "\n{\"name\":" << q(G.getName());
      OS << ",\"ty\":" << q(tyStr(G.getValueType()));
      OS << ",\"const\":" << (G.isConstant() ? "true" : "false");
      OS << ",\"internal\":" << (G.hasLocalLinkage() ? "true" : "false");
      OS << ",\"size\":" << (G.getValueType()->isSized() ? DL.getTypeAllocSize(G.getValueType()).getFixedSize() : 0);
      if (G.hasInitializer())
        OS << ",\"init\":" << val(G.getInitializer(), nullptr);
      SmallVector<DIGlobalVariableExpression *, 2> GVEs;
      G.getDebugInfo(GVEs);
      if (!GVEs.empty()) {
        auto *GV = GVEs[0]->getVariable();
        OS << ",\"di_ty\":" << diId(GV->getType());
        OS << ",\"di_name\":" << q(GV->getName());
        OS << ",\"line\":" << GV->getLine();
        OS << ",\"file\":" << q(GV->getFilename());
      }
      OS << "}";
    }
    OS << "]";
    // functions
    OS << ",\n\"functions\":[";
    first = true;
    for (auto &F : M) {
      if (!first)
        OS << ",";
      first = false;
      OS << "\n";
      dumpFunction(F);
    }
    OS << "]";
    // subprogram DI types (parameter types, for typedef names)
    DebugInfoFinder Finder;
    Finder.processModule(M);
    for (auto *T : Finder.types())
      diId(T);
    // types
    OS << ",\n\"types\":{";
    for (unsigned i = 0; i < tyOrder.size(); i++) {
      Type *T = tyOrder[i];
      if (i)
        OS << ",";
      OS << "\n" << q(tyNames[T]) << ":{";
      if (T->isIntegerTy())
        OS << "\"kind\":\"int\",\"bits\":" << T->getIntegerBitWidth();
      else if (auto *PT = dyn_cast<PointerType>(T)) {
        OS << "\"kind\":\"ptr\"";
        if (!PT->isOpaque())
          OS << ",\"elem\":" << q(tyStr(PT->getNonOpaquePointerElementType()));
      } else if (auto *AT = dyn_cast<ArrayType>(T)) {
        OS << "\"kind\":\"array\",\"elem\":" << q(tyStr(AT->getElementType()))
           << ",\"n\":" << AT->getNumElements();
      } else if (auto *ST = dyn_cast<StructType>(T)) {
        OS << "\"kind\":\"struct\",\"sname\":" << q(ST->hasName() ? ST->getName() : "");
        if (!ST->isOpaque()) {
          const StructLayout *SL = DL.getStructLayout(ST);
          OS << ",\"fields\":[";
          for (unsigned e = 0; e < ST->getNumElements(); e++) {
            if (e)
              OS << ",";
            OS << "{\"ty\":" << q(tyStr(ST->getElementType(e))) << ",\"off\":"
               << SL->getElementOffset(e) << "}";
          }
          OS << "]";
        } else
          OS << ",\"opaque\":true";
      } else if (T->isFunctionTy())
        OS << "\"kind\":\"func\"";
      else if (T->isVoidTy())
        OS << "\"kind\":\"void\"";
      else if (T->isFloatingPointTy())
        OS << "\"kind\":\"fp\"";
      else
        OS << "\"kind\":\"other\"";
      if (T->isSized())
        OS << ",\"size\":" << DL.getTypeAllocSize(T).getFixedSize();
      OS << "}";
    }
    OS << "}";
    // DI types (diOrder may grow during dump because of diId() calls)
    OS << ",\n\"ditypes\":[";
    for (unsigned i = 0; i < diOrder.size(); i++) {
      if (i)
        OS << ",";
      OS << "\n";
      dumpDIType(diOrder[i]);
    }
    OS << "]}\n";
  }
};

int main(int argc, char **argv) {
  if (argc != 3) {
    fprintf(stderr, "usage: ir2json in.ll out.json\n");
    return 2;
  }
  LLVMContext Ctx;
  SMDiagnostic Err;
  std::unique_ptr<Module> M = parseIRFile(argv[1], Err, Ctx);
  if (!M) {
    Err.print("ir2json", errs());
    return 2;
  }
  std::error_code EC;
  raw_fd_ostream OS(argv[2], EC);
  if (EC) {
    fprintf(stderr, "cannot open %s\n", argv[2]);
    return 2;
  }
  Dumper D(*M, OS);
  D.run();
  return 0;
}
