#ifndef VERIF_STUB_STDIO_H
#define VERIF_STUB_STDIO_H
#include <stddef.h>
#include <stdarg.h>
typedef struct _IO_FILE FILE;
extern FILE *stdin, *stdout, *stderr;
#define EOF (-1)
int printf(const char *, ...);
int fprintf(FILE *, const char *, ...);
int sprintf(char *, const char *, ...);
int snprintf(char *, size_t, const char *, ...);
int vprintf(const char *, va_list);
int vfprintf(FILE *, const char *, va_list);
int vsprintf(char *, const char *, va_list);
int vsnprintf(char *, size_t, const char *, va_list);
int fputc(int, FILE *);
int fputs(const char *, FILE *);
int putc(int, FILE *);
int putchar(int);
int puts(const char *);
int fgetc(FILE *);
int getc(FILE *);
int getchar(void);
char *fgets(char *, int, FILE *);
size_t fread(void *, size_t, size_t, FILE *);
size_t fwrite(const void *, size_t, size_t, FILE *);
int fflush(FILE *);
int fclose(FILE *);
FILE *fopen(const char *, const char *);
FILE *fdopen(int, const char *);
int sscanf(const char *, const char *, ...);
void perror(const char *);
#endif
