#ifndef VERIF_STUB_UNISTD_H
#define VERIF_STUB_UNISTD_H
#include <stddef.h>
typedef int ssize_t;
ssize_t read(int, void *, size_t);
ssize_t write(int, const void *, size_t);
int usleep(unsigned int);
unsigned int sleep(unsigned int);
int close(int);
#endif
