#ifndef VERIF_STUB_CTYPE_H
#define VERIF_STUB_CTYPE_H
int isalnum(int); int isalpha(int); int isblank(int); int iscntrl(int); int isdigit(int); int isgraph(int);
int islower(int); int isprint(int); int ispunct(int); int isspace(int); int isupper(int); int isxdigit(int);
int tolower(int); int toupper(int);
#endif
