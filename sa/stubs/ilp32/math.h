#ifndef VERIF_STUB_MATH_H
#define VERIF_STUB_MATH_H
double sqrt(double); double pow(double, double); double fabs(double); double floor(double); double ceil(double);
double log(double); double log2(double); double log10(double); double exp(double); double sin(double); double cos(double);
float sqrtf(float); float powf(float, float); float fabsf(float);
#endif
