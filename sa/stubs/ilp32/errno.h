#ifndef VERIF_STUB_ERRNO_H
#define VERIF_STUB_ERRNO_H
int *__errno_location(void);
#define errno (*__errno_location())
#define EINVAL 22
#define ENOMEM 12
#define EIO 5
#define ENOSPC 28
#define ERANGE 34
#define EAGAIN 11
#define EBUSY 16
#define ENOENT 2
#endif
