#ifndef VERIF_STUB_TIME_H
#define VERIF_STUB_TIME_H
typedef long time_t;
struct timespec { time_t tv_sec; long tv_nsec; };
time_t time(time_t *);
int nanosleep(const struct timespec *, struct timespec *);
int clock_gettime(int, struct timespec *);
#define CLOCK_MONOTONIC 1
#define CLOCK_REALTIME 0
#endif
