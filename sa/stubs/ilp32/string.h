#ifndef VERIF_STUB_STRING_H
#define VERIF_STUB_STRING_H
#include <stddef.h>
void *memcpy(void *, const void *, size_t);
void *memmove(void *, const void *, size_t);
void *memset(void *, int, size_t);
int memcmp(const void *, const void *, size_t);
void *memchr(const void *, int, size_t);
size_t strlen(const char *);
size_t strnlen(const char *, size_t);
char *strcpy(char *, const char *);
char *strncpy(char *, const char *, size_t);
char *strcat(char *, const char *);
char *strncat(char *, const char *, size_t);
int strcmp(const char *, const char *);
int strncmp(const char *, const char *, size_t);
int strcoll(const char *, const char *);
char *strchr(const char *, int);
char *strrchr(const char *, int);
char *strstr(const char *, const char *);
char *strpbrk(const char *, const char *);
size_t strspn(const char *, const char *);
size_t strcspn(const char *, const char *);
char *strdup(const char *);
char *strndup(const char *, size_t);
char *strtok(char *, const char *);
char *strtok_r(char *, const char *, char **);
char *strerror(int);
#endif
