#ifndef VERIF_STUB_INTTYPES_H
#define VERIF_STUB_INTTYPES_H
#include <stdint.h>
#define PRId8 "d"
#define PRId16 "d"
#define PRId32 "d"
#define PRId64 "lld"
#define PRIu8 "u"
#define PRIu16 "u"
#define PRIu32 "u"
#define PRIu64 "llu"
#define PRIx8 "x"
#define PRIx16 "x"
#define PRIx32 "x"
#define PRIx64 "llx"
#define PRIX32 "X"
#define PRIuPTR "u"
#define PRIxPTR "x"
#endif
