#ifndef VERIF_STUB_STDLIB_H
#define VERIF_STUB_STDLIB_H
#include <stddef.h>
void *malloc(size_t);
void *calloc(size_t, size_t);
void *realloc(void *, size_t);
void free(void *);
void abort(void) __attribute__((noreturn));
void exit(int) __attribute__((noreturn));
int atoi(const char *);
long strtol(const char *, char **, int);
unsigned long strtoul(const char *, char **, int);
long long strtoll(const char *, char **, int);
unsigned long long strtoull(const char *, char **, int);
double strtod(const char *, char **);
int abs(int);
long labs(long);
int rand(void);
void srand(unsigned int);
void qsort(void *, size_t, size_t, int (*)(const void *, const void *));
char *getenv(const char *);
#define EXIT_SUCCESS 0
#define EXIT_FAILURE 1
#define RAND_MAX 2147483647
#endif
