#ifndef VERIF_STUB_SYS_TIME_H
#define VERIF_STUB_SYS_TIME_H
#include <time.h>
struct timeval { time_t tv_sec; long tv_usec; };
int gettimeofday(struct timeval *, void *);
#endif
