#ifndef VERIF_STUB_STRINGS_H
#define VERIF_STUB_STRINGS_H
#include <stddef.h>
int strcasecmp(const char *, const char *);
int strncasecmp(const char *, const char *, size_t);
int ffs(int);
#endif
