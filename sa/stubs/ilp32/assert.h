/* analysis stub (ILP32 variant): assert as glibc spells it */
#ifndef VERIF_STUB_ASSERT_H
#define VERIF_STUB_ASSERT_H
void __assert_fail(const char *, const char *, unsigned int, const char *) __attribute__((noreturn));
#endif
#undef assert
#ifdef NDEBUG
#define assert(e) ((void) 0)
#else
#define assert(e) ((e) ? (void) 0 : __assert_fail(#e, __FILE__, __LINE__, __func__))
#endif
