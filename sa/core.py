"""Check harness: obligations, exit codes, known findings, evidence.

Exit codes: 0 all obligations discharged (known findings listed, not counted);
1 at least one obligation refuted that is not a listed known finding;
2 analysis broken / inconclusive (anchor vanished, fewer rule instances than
confirmed by hand, unknown idiom, abstract domain answered top).
"""
import json
import os
import sys
import time

from . import build
from .ir import AnalysisError

VERIF = build.VERIF
# evidence of runs against a scratch copy (self-tests, seeded changes: VERIF_REPO set) must not replace the evidence of /repo
EVIDENCE_DIR = os.environ.get("VERIF_EVIDENCE_DIR") or (
    os.path.join(VERIF, "evidence") if os.environ.get("VERIF_REPO", "/repo") == "/repo" else os.path.join(VERIF, "build", "evidence_scratch"))
REPLAY_DIR = os.path.join(VERIF, "build", "replay")
KNOWN = os.path.join(VERIF, "known_findings.json")


class Check:
    def __init__(self, pid, tier="quick", seed=0):
        self.pid = pid
        self.tier = tier
        self.seed = seed
        self.t0 = time.time()
        self.obligations = []   # dicts: rule, instance, ok, detail, loc
        self.inconclusive = []
        self.analysed = {"units": [], "functions": set(), "configs": set()}
        self.rules = {}         # rule -> text
        self.assumptions = []
        self.not_decided = []
        self.samples = []
        self.level = "other"
        self.extra = {}
        self.trusted_base = ["clang 14 front end (C -> LLVM IR, -O0 + mem2reg)",
                             "sa/ir2json.cc (LLVM API walker)", "sa/ir.py, sa/flow.py"]
        self.explanation = ""
        self.min_counts = {}    # rule -> (found, required)
        self._seen = set()
        self.rule_prefix = ""       # set by a check that re-uses another property's rule functions
        self.variant = ""           # set by run_check while the rules run on a build variant of the tree (e.g. "ndebug.")
        self.rule_filter = None     # callable(rule) -> bool

    # ---- recording --------------------------------------------------------
    def rule(self, rid, text):
        self.rules[rid] = text

    def note_unit(self, module):
        u = "%s[%s]" % (module.unit, module.config)
        if u not in self.analysed["units"]:
            self.analysed["units"].append(u)
        self.analysed["configs"].add(module.config)

    def note_fn(self, fn):
        self.analysed["functions"].add(fn.name if hasattr(fn, "name") else str(fn))

    def ob(self, rule, instance, ok, detail="", loc="", fn=""):
        """Record one obligation. ok: True (discharged) / False (refuted)."""
        if self.rule_filter is not None and not self.rule_filter(rule):
            return ok
        rule = self.variant + self.rule_prefix + rule
        key = (rule, instance, bool(ok), loc)
        if key in self._seen:
            return ok
        self._seen.add(key)
        self.obligations.append({"rule": rule, "instance": instance, "ok": bool(ok),
                                 "detail": detail, "loc": loc, "function": fn})
        return ok

    def unknown(self, rule, instance, why, loc=""):
        """The rule cannot decide this instance (unrecognised idiom, top)."""
        if self.rule_filter is not None and not self.rule_filter(rule):
            return
        rule = self.variant + self.rule_prefix + rule
        self.inconclusive.append({"rule": rule, "instance": instance, "why": why, "loc": loc})

    def expect(self, rule, what, found, required):
        """Non-vacuity: fewer instances than confirmed by hand is analysis-broken."""
        if self.rule_filter is not None and not self.rule_filter(rule):
            return
        self.min_counts["%s%s:%s" % (self.variant, rule, what)] = (found, required)
        if found < required:
            self.unknown(rule, what, "rule matched %d instances, %d were confirmed by reading the code; "
                         "anchor vanished or idiom changed" % (found, required))

    def sample(self, s):
        if len(self.samples) < 12:
            self.samples.append(s)

    # ---- finishing ---------------------------------------------------------
    def _known(self):
        try:
            with open(KNOWN) as f:
                k = json.load(f)
        except FileNotFoundError:
            return []
        return [e for e in k.get("findings", []) if e.get("property") == self.pid
                and e.get("status") == "known"]

    @staticmethod
    def _match(entry, ob):
        for key in ("rule", "function"):
            if key in entry and entry[key] != ob.get(key):
                return False
        if "instance_contains" in entry and entry["instance_contains"] not in ob.get("instance", ""):
            return False
        return True

    def finish(self):
        wall = time.time() - self.t0
        known = self._known()
        refuted = [o for o in self.obligations if not o["ok"]]
        new, listed = [], []
        for o in refuted:
            m = [e for e in known if self._match(e, o)]
            (listed if m else new).append(o)
        os.makedirs(REPLAY_DIR, exist_ok=True)
        for o in listed:
            print("KNOWN-FINDING: property=%s rule=%s %s at %s: %s" %
                  (self.pid, o["rule"], o["instance"], o["loc"], o["detail"]))
        replay_paths = []
        for n, o in enumerate(new):
            path = os.path.join(REPLAY_DIR, "%s.%d.json" % (self.pid, n))
            with open(path, "w") as f:
                json.dump({"property": self.pid, "obligation": o,
                           "rule_text": self.rules.get(o["rule"], ""),
                           "how_to_replay": "cd /verif && ./check %s  # re-derives this report from /repo's source"
                                            % self.pid}, f, indent=1)
            replay_paths.append(path)
            print("REFUTED %s rule=%s instance=%s at %s (%s): %s" %
                  (self.pid, o["rule"], o["instance"], o["loc"], o["function"], o["detail"]))
            print("VIOLATION property=%s replay=%s" % (self.pid, path))
        if os.environ.get("VERIF_DUMP"):
            for o in self.obligations:
                if o["ok"] and os.environ["VERIF_DUMP"] in o["rule"] + " " + o["instance"]:
                    print("DISCHARGED %s rule=%s instance=%s at %s: %s" % (self.pid, o["rule"], o["instance"], o["loc"], o["detail"]))
        for u in self.inconclusive:
            print("INCONCLUSIVE property=%s rule=%s instance=%s at %s: %s" %
                  (self.pid, u["rule"], u["instance"], u["loc"], u["why"]))
        n_ob = len(self.obligations)
        n_ok = sum(1 for o in self.obligations if o["ok"])
        distinct = len(set((o["rule"], o["instance"]) for o in self.obligations))
        samples = self.samples or [
            {"rule": o["rule"], "instance": o["instance"], "loc": o["loc"], "ok": o["ok"],
             "detail": o["detail"][:200]} for o in self.obligations[:8]]
        coverage = {
            "explanation": self.explanation,
            "obligations": n_ob,
            "discharged": n_ok,
            "evaluations": max(n_ob, 1),
            "distinct_nontrivial": distinct,
            "rule": "one obligation per (rule, code construct) instance found in the IR of /repo's current "
                    "tree; distinct = distinct (rule, instance) pairs; every obligation is a non-trivial "
                    "statement about a specific construct",
            "samples": samples,
            "checker_cmd": "cd /verif && ./check %s --tier %s" % (self.pid, self.tier),
            "trusted_base": self.trusted_base,
            "rules": self.rules,
            "units_analysed": self.analysed["units"],
            "units_not_analysed": build.not_analysed_units(),
            "functions_analysed": sorted(self.analysed["functions"]),
            "instance_counts": {k: {"found": v[0], "required_min": v[1]} for k, v in self.min_counts.items()},
            "per_rule": {},
            "refuted": [o for o in refuted],
            "known_findings_listed": len(listed),
            "inconclusive": self.inconclusive,
            "not_decided": self.not_decided,
            "exhaustive": False,
        }
        for o in self.obligations:
            pr = coverage["per_rule"].setdefault(o["rule"], {"obligations": 0, "discharged": 0, "instances": []})
            pr["obligations"] += 1
            pr["discharged"] += 1 if o["ok"] else 0
            if len(pr["instances"]) < 40:
                pr["instances"].append("%s @%s%s" % (o["instance"], o["loc"], "" if o["ok"] else "  REFUTED"))
        coverage.update(self.extra)
        ev = {
            "property_id": self.pid,
            "tier": self.tier,
            "seed": self.seed,
            "level": self.level,
            "coverage": coverage,
            "assumptions": self.assumptions,
            "wall_s": round(wall, 3),
            "violations": len(new),
        }
        os.makedirs(EVIDENCE_DIR, exist_ok=True)
        with open(os.path.join(EVIDENCE_DIR, self.pid + ".json"), "w") as f:
            json.dump(ev, f, indent=1, sort_keys=True)
            f.write("\n")
        status = 0
        if new:
            status = 1
        elif self.inconclusive:
            status = 2
        print("%s %s: %d obligations, %d discharged, %d refuted (%d listed known findings), "
              "%d inconclusive, %.1fs -> exit %d" %
              (self.pid, self.tier, n_ob, n_ok, len(refuted), len(listed), len(self.inconclusive), wall, status))
        return status


# Build variants every check is also decided on (prefix of the rule ids, extra compiler flags).  NDEBUG: assert() is
# compiled out, so nothing the analysis treats as "cannot happen" may be the only thing between an input and a violation.
# uchar: plain char is unsigned on the ARM targets the library is written for (-funsigned-char); a table of `char` holding -1,
# a `char` compared with EOF or a sign test on a byte change meaning there while the x86-64 test build is unaffected.
VARIANTS = [("ndebug.", ["-DNDEBUG"]), ("uchar.", ["-funsigned-char"])]
VARIANT_SKIP_QUICK = ()
# ilp32: the 32-bit ARM targets the library is written for (int, long and pointers 32 bits, char unsigned), compiled
# freestanding against prototype-only stand-ins for the libc headers (sa/stubs/ilp32; IR only, nothing is linked or run).
# Only the checks whose rules are not written against the LP64 layout take part (the others say so in DESIGN 11.13).
_STUBS = os.path.join(os.path.dirname(os.path.abspath(__file__)), "stubs", "ilp32")
ILP32 = ("ilp32.", ["--target=armv7m-none-eabi", "-ffreestanding", "-isystem", _STUBS])
ILP32_CHECKS = ("C08", "C12", "C13", "C14", "C16", "C17", "C18", "C19")


def run_check(pid, runner, tier, seed):
    chk = Check(pid, tier, seed)
    try:
        runner(chk)
        if not os.environ.get("VERIF_NO_VARIANTS") and (tier == "thorough" or pid not in VARIANT_SKIP_QUICK):
            from . import build
            for prefix, flags in VARIANTS + ([ILP32] if pid in ILP32_CHECKS else []):
                chk.rule_filter, chk.rule_prefix, chk.variant = None, "", prefix
                build.OVERLAY[:] = list(flags)
                try:
                    runner(chk)
                finally:
                    build.OVERLAY[:] = [f for f in os.environ.get("VERIF_OVERLAY", "").split() if f]
                    chk.variant = ""
            for name in ("assumptions", "not_decided", "trusted_base"):
                seen, out = set(), []
                for x in getattr(chk, name):
                    if x not in seen:
                        seen.add(x)
                        out.append(x)
                setattr(chk, name, out)
            chk.assumptions.append("every rule is decided on three builds: the default one, -DNDEBUG (rule ids prefixed 'ndebug.': no verdict "
                                   "rests on an assert() that a release build compiles out) and -funsigned-char ('uchar.': plain char as on "
                                   "the ARM targets); an ILP32 ARM build ('ilp32.', freestanding against prototype-only libc headers) is added "
                                   "for C08, C12, C13, C14, C16, C17, C18, C19 only - the other checks' rules assume the LP64 layout")
    except AnalysisError as e:
        chk.rule_filter, chk.rule_prefix = None, ""     # an imported rule set may have been active: never filter this
        chk.unknown("analysis", "engine", str(e))
    except Exception as e:      # an engine bug is never a verdict
        import traceback
        traceback.print_exc()
        chk.rule_filter, chk.rule_prefix = None, ""
        chk.unknown("analysis", "engine-crash", "%s: %s" % (type(e).__name__, e))
    return chk.finish()
