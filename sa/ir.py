"""Python view of the JSON facts produced by ir2json (LLVM-14 IR after mem2reg).

Fail-closed: anything a rule does not understand raises AnalysisError, which the
driver turns into exit code 2 (inconclusive), never into a pass or a violation.
"""
import json
import os

REPO_ROOT = os.environ.get("VERIF_REPO", "/repo").rstrip("/") + "/"


def strip_root(f):
    f = f or "?"
    if f.startswith(REPO_ROOT):
        return f[len(REPO_ROOT):]
    return f


class AnalysisError(Exception):
    """The analysis cannot decide (anchor vanished, unknown idiom, domain top)."""


class Value:
    __slots__ = ("k", "ty", "d", "fn")

    def __init__(self, d, fn=None):
        self.k = d["k"]
        self.ty = d.get("ty")
        self.d = d
        self.fn = fn

    # ---- identity --------------------------------------------------------
    def key(self):
        k = self.k
        if k in ("inst", "arg"):
            return (k, self.d["name"])
        if k == "int":
            return (k, self.ty, self.d["v"])
        if k in ("global", "func"):
            return (k, self.d["name"])
        if k == "null":
            return (k,)
        if k == "cexpr":
            return (k, self.d["op"], self.d.get("off"),
                    tuple(Value(o, self.fn).key() for o in self.d["ops"]))
        return (k, json.dumps(self.d, sort_keys=True))

    def __eq__(self, o):
        return isinstance(o, Value) and self.key() == o.key()

    def __hash__(self):
        return hash(self.key())

    def __repr__(self):
        k = self.k
        if k in ("inst", "arg"):
            return self.d["name"]
        if k == "int":
            return str(self.d["sv"])
        if k in ("global", "func"):
            return "@" + self.d["name"]
        if k == "null":
            return "null"
        if k == "cexpr":
            return "%s(%s%s)" % (self.d["op"], ",".join(repr(Value(o)) for o in self.d["ops"]),
                                 (";off=%s" % self.d["off"]) if "off" in self.d else "")
        return "<%s>" % k

    # ---- accessors -------------------------------------------------------
    @property
    def name(self):
        return self.d.get("name")

    def is_const_int(self):
        return self.k == "int"

    @property
    def uval(self):
        return self.d["v"]

    @property
    def sval(self):
        return self.d["sv"]

    def is_null(self):
        return self.k == "null"

    @property
    def inst(self):
        """Defining instruction for an SSA value (None otherwise)."""
        if self.k == "inst" and self.fn is not None:
            return self.fn.defs.get(self.d["name"])
        return None

    def cexpr_ops(self):
        return [Value(o, self.fn) for o in self.d["ops"]]


class Inst:
    def __init__(self, d, fn, block, idx):
        self.d = d
        self.fn = fn
        self.block = block
        self.idx = idx
        self.op = d["op"]
        self.ty = d["ty"]
        self.name = d.get("name")
        self.line = d.get("line", 0)
        self.file = d.get("file", fn.file if fn else None)
        self.ops = [Value(o, fn) for o in d.get("ops", [])]
        self.args = [Value(o, fn) for o in d.get("args", [])]
        self.callee = d.get("callee")
        self.callee_val = Value(d["callee_val"], fn) if "callee_val" in d else None
        self.incoming = [(Value(v, fn), b) for v, b in d.get("incoming", [])]
        self.cond = Value(d["cond"], fn) if "cond" in d else None
        self.succs = d.get("succs")
        if self.op == "switch":
            self.succs = [d["default"]] + [b for _, b in d["cases"]]
        self.ordering = d.get("ordering")
        self.pred = d.get("pred")

    def __getitem__(self, k):
        return self.d[k]

    def get(self, k, default=None):
        return self.d.get(k, default)

    @property
    def value(self):
        return Value({"k": "inst", "ty": self.ty, "name": self.name}, self.fn)

    def is_dbg(self):
        return self.op == "call" and self.callee is not None and self.callee.startswith("llvm.dbg.")

    def is_atomic(self):
        if self.op in ("atomicrmw", "cmpxchg"):
            return True
        if self.op in ("load", "store"):
            return self.ordering != "notatomic"
        return False

    def is_terminator(self):
        return self.op in ("br", "switch", "ret", "unreachable")

    @property
    def loc(self):
        return "%s:%d" % (strip_root(self.file), self.line)

    def pos(self):
        return (self.block.name, self.idx)

    def __repr__(self):
        s = "%s = " % self.name if self.name else ""
        if self.op == "call":
            return "%s%s call %s(%s) @%s" % (s, self.ty, self.callee or self.callee_val,
                                             ", ".join(map(repr, self.args)), self.loc)
        if self.op == "phi":
            return "%sphi %s @%s" % (s, ["%r<-%s" % (v, b) for v, b in self.incoming], self.loc)
        extra = ""
        if self.pred:
            extra += " " + self.pred
        if self.ordering and self.ordering != "notatomic":
            extra += " " + self.ordering
        if self.op == "atomicrmw":
            extra += " " + self.d["rmwop"]
        return "%s%s%s %s @%s" % (s, self.op, extra, ", ".join(map(repr, self.ops)), self.loc)


class Block:
    def __init__(self, d, fn):
        self.name = d["name"]
        self.fn = fn
        self.insts = [Inst(i, fn, self, n) for n, i in enumerate(d["insts"])]
        self.succs = []
        self.preds = []

    @property
    def term(self):
        return self.insts[-1]

    def __repr__(self):
        return "<bb %s>" % self.name


class Function:
    def __init__(self, d, module):
        self.d = d
        self.module = module
        self.name = d["name"]
        self.decl = d["decl"]
        self.internal = d["internal"]
        self.file = d.get("file")
        self.line = d.get("line", 0)
        self.ret_ty = d["ret_ty"]
        self.defs = {}
        self.args = [Value({"k": "arg", "ty": a["ty"], "idx": n, "name": a["name"]}, self)
                     for n, a in enumerate(d["args"])]
        self.arg_ext = [a.get("ext") for a in d["args"]]
        self.ret_ext = d.get("ret_ext")
        self.blocks = {}
        self.order = []
        for bd in d["blocks"]:
            b = Block(bd, self)
            self.blocks[b.name] = b
            self.order.append(b)
            for i in b.insts:
                if i.name:
                    self.defs[i.name] = i
        for b in self.order:
            t = b.term
            for s in (t.succs or []):
                sb = self.blocks[s]
                if sb not in b.succs:
                    b.succs.append(sb)
                if b not in sb.preds:
                    sb.preds.append(b)
        self._dom = None
        self._pdom = None
        self.arg_names = {}
        # parameter names from dbg.value / dbg.declare
        for i in self.insts():
            if i.is_dbg() and i.get("dbgvar_arg", 0) > 0:
                self.arg_names.setdefault(i["dbgvar_arg"] - 1, i["dbgvar"])

    @property
    def loc(self):
        return "%s:%d" % (strip_root(self.file), self.line)

    @property
    def entry(self):
        return self.order[0]

    def insts(self):
        for b in self.order:
            for i in b.insts:
                yield i

    def real_insts(self):
        for i in self.insts():
            if not i.is_dbg():
                yield i

    def calls(self, callee=None):
        for i in self.real_insts():
            if i.op == "call" and (callee is None or i.callee == callee):
                yield i

    def rets(self):
        return [b.term for b in self.order if b.term.op == "ret"]

    def users(self, v):
        """Instructions using SSA value v (Value or name)."""
        name = v if isinstance(v, str) else v.name
        out = []
        for i in self.real_insts():
            for o in list(i.ops) + list(i.args) + [x for x, _ in i.incoming] + \
                    ([i.cond] if i.cond is not None else []) + \
                    ([i.callee_val] if i.callee_val is not None else []):
                if o.k in ("inst", "arg") and o.name == name:
                    out.append(i)
                    break
        return out

    # ---- dominance ---------------------------------------------------------
    def _compute_dom(self, post=False):
        blocks = self.order
        if not post:
            roots = [self.entry]
            preds = lambda b: b.preds
        else:
            roots = [b for b in blocks if not b.succs]
            preds = lambda b: b.succs
        allset = set(b.name for b in blocks)
        dom = {b.name: set(allset) for b in blocks}
        for r in roots:
            dom[r.name] = {r.name}
        changed = True
        while changed:
            changed = False
            for b in blocks:
                if b in roots:
                    continue
                ps = preds(b)
                if ps:
                    new = set.intersection(*[dom[p.name] for p in ps])
                else:
                    new = set()
                new = new | {b.name}
                if new != dom[b.name]:
                    dom[b.name] = new
                    changed = True
        return dom

    def dom(self):
        if self._dom is None:
            self._dom = self._compute_dom(False)
        return self._dom

    def pdom(self):
        if self._pdom is None:
            self._pdom = self._compute_dom(True)
        return self._pdom

    def dominates(self, a, b):
        """Instruction a dominates instruction b (strictly earlier if same block)."""
        if a.block is b.block:
            return a.idx < b.idx
        return a.block.name in self.dom()[b.block.name]

    def block_dominates(self, a, b):
        return a.name in self.dom()[b.name]

    def postdominates(self, a, b):
        """Instruction a post-dominates instruction b."""
        if a.block is b.block:
            return a.idx > b.idx
        return a.block.name in self.pdom()[b.block.name]

    def reachable_blocks(self, start, avoid=()):
        """Blocks reachable from block `start` (inclusive) not passing blocks in avoid."""
        seen = set()
        stack = [start]
        avoid = set(x.name if isinstance(x, Block) else x for x in avoid)
        while stack:
            b = stack.pop()
            if b.name in seen or b.name in avoid:
                continue
            seen.add(b.name)
            stack.extend(b.succs)
        return seen

    def can_reach(self, a, b, avoid_insts=()):
        """Is there a path from just after instruction a to instruction b that does not
        execute any instruction in avoid_insts?"""
        avoid = {}
        for x in avoid_insts:
            avoid.setdefault(x.block.name, []).append(x.idx)
        # within a's block after a
        def blocked(bn, lo, hi):
            return any(lo <= k < hi for k in avoid.get(bn, []))
        if a.block is b.block and a.idx < b.idx:
            if not blocked(a.block.name, a.idx + 1, b.idx):
                return True
        if blocked(a.block.name, a.idx + 1, len(a.block.insts)):
            return False
        seen = set()
        stack = list(a.block.succs)
        while stack:
            blk = stack.pop()
            if blk.name in seen:
                continue
            seen.add(blk.name)
            if blk is b.block:
                if not blocked(blk.name, 0, b.idx):
                    return True
            if blocked(blk.name, 0, len(blk.insts)):
                continue
            stack.extend(blk.succs)
        return False

    def in_cycle(self, inst):
        return self.can_reach(inst, inst)

    def counted_loop(self, head):
        """(bound, description) if the loop headed by block `head` is a counted loop: a phi of the header starts at a constant,
        is stepped by a positive constant on every way round, and the header (or the block that closes the loop) leaves the loop
        as soon as the counter fails an ordered / != comparison with a constant.  None otherwise."""
        H = self.blocks[head]

        def reach(src):
            seen, stack = set(), [src]
            while stack:
                b = stack.pop()
                if b.name in seen:
                    continue
                seen.add(b.name)
                stack.extend(b.succs)
            return seen
        body = {b.name for b in self.order if H.name in reach(b) and b.name in reach(H)} | {H.name}
        latches = [b for b in H.preds if b.name in body]
        for phi in H.insts:
            if phi.op != "phi":
                continue
            init, step, ok = None, None, True
            for v, bname in phi.incoming:
                bname = bname if isinstance(bname, str) else bname.name
                if bname in body:
                    d = v.inst
                    if d is None or d.op != "add" or not any(o.k == "inst" and o.name == phi.name for o in d.ops) or \
                            not any(o.is_const_int() and o.sval > 0 for o in d.ops):
                        ok = False
                        break
                    c = [o.sval for o in d.ops if o.is_const_int()][0]
                    if step not in (None, c):
                        ok = False
                        break
                    step = c
                    inc_name = d.name
                elif v.is_const_int():
                    if init not in (None, v.sval):
                        ok = False
                        break
                    init = v.sval
                else:
                    ok = False
                    break
            if not ok or init is None or step is None:
                continue
            for tb in [H] + latches:
                t = tb.term
                if t.op != "br" or t.cond is None or t.cond.inst is None or t.cond.inst.op != "icmp":
                    continue
                ic = t.cond.inst
                a, b = ic.ops
                while a.k == "inst" and a.inst is not None and a.inst.op in ("zext", "sext"):
                    a = a.inst.ops[0]       # (the counter compared in a wider type)
                if not (a.k == "inst" and a.name in (phi.name, inc_name) and b.is_const_int()):
                    continue
                succs = t.succs
                stay_true = (succs[0] if isinstance(succs[0], str) else succs[0].name) in body
                stay_false = (succs[1] if isinstance(succs[1], str) else succs[1].name) in body
                if stay_true == stay_false:
                    continue
                N = b.sval if ic.pred.startswith("s") else b.uval
                if stay_true and (ic.pred in ("ult", "slt", "ule", "sle") or (ic.pred == "ne" and step == 1 and init <= N)):
                    n = max(0, (N - init + step - 1) // step + (1 if ic.pred.endswith("le") else 0))
                    return n, "counter %s from %d step %d while %s %d" % (phi.name, init, step, ic.pred, N)
        return None

    def loops_headers(self):
        """Targets of retreating edges of a depth-first traversal (covers irreducible loops such as
        protothread switch dispatch into a loop body)."""
        out = set()
        color = {}
        stack = [(self.entry, iter(self.entry.succs))]
        color[self.entry.name] = 1
        while stack:
            b, it = stack[-1]
            nxt = next(it, None)
            if nxt is None:
                color[b.name] = 2
                stack.pop()
                continue
            c = color.get(nxt.name, 0)
            if c == 1:
                out.add(nxt.name)
            elif c == 0:
                color[nxt.name] = 1
                stack.append((nxt, iter(nxt.succs)))
        return out


def _walk_values(x, fnc):
    """Apply fnc to every operand dict (a dict with a "k" key) reachable from the JSON value x; fnc may mutate it in place."""
    if isinstance(x, dict):
        if "k" in x:
            fnc(x)
        for v in list(x.values()):
            if isinstance(v, (dict, list)):
                _walk_values(v, fnc)
    elif isinstance(x, list):
        for v in x:
            _walk_values(v, fnc)


def _propagate_global_arguments(d):
    """Normalisation: a file-local function whose every caller passes the address of the same global object for a parameter (a
    `kernel_t *k` context pointer that is always `&kernel`) is analysed with that global in place of the parameter - the rules
    then see the same accesses whether a helper reads the global directly or is handed its address.  Requires internal linkage,
    no address-taken use, at least one caller, and the very same global (no offset) at every call site."""
    for _round in range(6):
        if not _propagate_global_arguments_once(d):
            break


def _propagate_global_arguments_once(d):
    fns = {f["name"]: f for f in d["functions"]}
    taken = set()
    calls = {}
    changed = False
    for f in d["functions"]:
        for b in f.get("blocks", []):
            for i in b.get("insts", []):
                if i.get("op") == "call" and isinstance(i.get("callee"), str) and i["callee"] in fns:
                    calls.setdefault(i["callee"], []).append(i.get("args", []))
                _walk_values([v for k_, v in i.items() if k_ != "callee_val"],
                             lambda o: taken.add(o.get("name")) if o.get("k") == "func" else None)
    for name, f in fns.items():
        if not f.get("internal") or name in taken or not f.get("blocks") or name not in calls or f.get("varargs"):
            continue
        drop = []
        for idx, a in enumerate(f.get("args", [])):
            vals = set()
            for args in calls[name]:
                if idx >= len(args) or args[idx].get("k") != "global":
                    vals.add(None)
                else:
                    vals.add(args[idx]["name"])
            if len(vals) != 1 or None in vals:
                continue
            g = list(vals)[0]
            aname = a.get("name")

            def repl(o, aname=aname, g=g, idx=idx):
                if o.get("k") == "arg" and (o.get("name") == aname or o.get("idx") == idx):
                    ty = o.get("ty")
                    o.clear()
                    o.update({"k": "global", "name": g, "ty": ty})
            for b in f.get("blocks", []):
                _walk_values(b.get("insts", []), repl)
            drop.append(idx)
            changed = True
        # the parameter itself disappears (from the function and from every call of it), so that the helper has the signature it
        # would have had reading the global directly
        for idx in sorted(drop, reverse=True):
            del f["args"][idx]
            for args in calls[name]:
                if idx < len(args):
                    del args[idx]

            def renum(o, idx=idx):
                if o.get("k") == "arg" and isinstance(o.get("idx"), int) and o["idx"] > idx:
                    o["idx"] -= 1
            for b in f.get("blocks", []):
                _walk_values(b.get("insts", []), renum)
    return changed


class Module:
    def __init__(self, path, unit=None, config=None):
        with open(path) as f:
            d = json.load(f)
        self.d = d
        self.unit = unit or d["source"]
        self.config = config
        self.types = d["types"]
        self.ditypes = {t["id"]: t for t in d["ditypes"]}
        self.ptr_size = d["ptr_size"]
        self.globals = {g["name"]: g for g in d["globals"]}
        self.functions = {}
        _propagate_global_arguments(d)
        for fd in d["functions"]:
            self.functions[fd["name"]] = Function(fd, self)
        # DI name -> composite type id (through typedefs)
        self.di_by_name = {}
        for t in d["ditypes"]:
            if t["name"] and t["tag"] in ("DW_TAG_typedef", "DW_TAG_structure_type", "DW_TAG_union_type"):
                c = self.di_strip(t["id"], typedefs=True, quals=True)
                if c and self.ditypes[c]["tag"] in ("DW_TAG_structure_type", "DW_TAG_union_type") \
                        and self.ditypes[c].get("elems"):
                    self.di_by_name.setdefault(t["name"], c)

    def fn(self, name):
        f = self.functions.get(name)
        if f is None or f.decl:
            raise AnalysisError("anchor vanished: function %s not defined in %s" % (name, self.unit))
        return f

    def has_fn(self, name):
        f = self.functions.get(name)
        return f is not None and not f.decl

    def defined_functions(self):
        return [f for f in self.functions.values() if not f.decl]

    # ---- debug-info types ----------------------------------------------------
    def di_strip(self, tid, typedefs=True, quals=True):
        while tid:
            t = self.ditypes[tid]
            if typedefs and t["tag"] == "DW_TAG_typedef":
                tid = t["base"]
            elif quals and t["tag"] in ("DW_TAG_const_type", "DW_TAG_volatile_type",
                                        "DW_TAG_atomic_type", "DW_TAG_restrict_type"):
                tid = t["base"]
            else:
                return tid
        return 0

    def di_is_atomic(self, tid):
        """Is the DI type _Atomic-qualified (through typedefs)?"""
        while tid:
            t = self.ditypes[tid]
            if t["tag"] == "DW_TAG_atomic_type":
                return True
            if t["tag"] in ("DW_TAG_typedef", "DW_TAG_const_type", "DW_TAG_volatile_type"):
                tid = t["base"]
            else:
                return False
        return False

    def di_struct_for_ir(self, ir_ty):
        """DI composite id for an IR struct type string like %struct.messageq_t."""
        t = ir_ty.rstrip("*")
        for pre in ("%struct.", "%union."):
            if t.startswith(pre):
                n = t[len(pre):]
                if n in self.di_by_name:
                    return self.di_by_name[n]
                # clang may append .N suffixes
                base = n.rsplit(".", 1)[0]
                if base in self.di_by_name:
                    return self.di_by_name[base]
        return 0

    def di_members(self, tid):
        tid = self.di_strip(tid)
        t = self.ditypes.get(tid)
        if not t or t["tag"] not in ("DW_TAG_structure_type", "DW_TAG_union_type"):
            return []
        out = []
        for e in t.get("elems", []):
            if isinstance(e, int) and self.ditypes[e]["tag"] == "DW_TAG_member":
                out.append(self.ditypes[e])
        return out

    def di_array_info(self, tid):
        """(element type id, count) if tid is an array type."""
        tid = self.di_strip(tid)
        t = self.ditypes.get(tid)
        if not t or t["tag"] != "DW_TAG_array_type":
            return None
        n = 1
        for e in t.get("elems", []):
            if isinstance(e, dict) and "count" in e:
                n *= e["count"]
        return (t["base"], n)

    def di_field_path(self, tid, off, size=None):
        """Resolve byte offset inside DI type to a list of path components.
        Returns (path list, leaf type id, residual offset)."""
        path = []
        while True:
            sid = self.di_strip(tid)
            t = self.ditypes.get(sid)
            if not t:
                return path, tid, off
            if t["tag"] == "DW_TAG_structure_type":
                hit = None
                for m in self.di_members(sid):
                    msz = self.ditypes[self.di_strip(m["base"])]["size"] if self.di_strip(m["base"]) else 0
                    if m["offset"] <= off < m["offset"] + max(msz, 1):
                        hit = m
                if hit is None:
                    return path, tid, off
                path.append(hit["name"] or "<anon>")
                off -= hit["offset"]
                tid = hit["base"]
                continue
            if t["tag"] == "DW_TAG_union_type":
                return path, tid, off
            if t["tag"] == "DW_TAG_array_type":
                et, n = self.di_array_info(sid)
                esz = self.ditypes[self.di_strip(et)]["size"] if self.di_strip(et) else 0
                if esz == 0:
                    return path, tid, off
                path.append("[%d]" % (off // esz))
                off = off % esz
                tid = et
                continue
            return path, tid, off

    def di_field(self, tid, name):
        for m in self.di_members(tid):
            if m["name"] == name:
                return m
        return None

    def struct_field_offset(self, struct_name, field):
        tid = self.di_by_name.get(struct_name)
        if not tid:
            raise AnalysisError("anchor vanished: struct %s has no debug info in %s" % (struct_name, self.unit))
        m = self.di_field(tid, field)
        if m is None:
            raise AnalysisError("anchor vanished: field %s.%s" % (struct_name, field))
        return m["offset"]

    def enum_values(self, enum_name=None):
        out = {}
        for t in self.ditypes.values():
            if t["tag"] == "DW_TAG_enumeration_type":
                for e in t.get("elems", []):
                    if isinstance(e, dict) and "enum" in e:
                        out[e["enum"]] = e["v"]
        return out

    def type_size(self, ty):
        t = self.types.get(ty)
        if t is None or "size" not in t:
            raise AnalysisError("unsized type %s" % ty)
        return t["size"]

    def pointee(self, ty):
        t = self.types.get(ty)
        if t and t["kind"] == "ptr":
            return t.get("elem")
        if ty.endswith("*"):
            return ty[:-1]
        return None


def int_bits(ty):
    if ty and ty.startswith("i") and ty[1:].isdigit():
        return int(ty[1:])
    return None


def _di_leaves(self, tid, base=0, prefix="", depth=0):
    """Scalar/array leaf members of a DI composite: list of (path, offset, size, member type id)."""
    out = []
    sid = self.di_strip(tid)
    t = self.ditypes.get(sid)
    if not t or depth > 8:
        return out
    if t["tag"] in ("DW_TAG_structure_type", "DW_TAG_union_type"):
        for m in self.di_members(sid):
            mt = self.di_strip(m["base"])
            mtt = self.ditypes.get(mt)
            name = (prefix + "." if prefix else "") + (m["name"] or "<anon>")
            if mtt and mtt["tag"] in ("DW_TAG_structure_type", "DW_TAG_union_type") and mtt.get("elems"):
                out += _di_leaves(self, m["base"], base + m["offset"], name, depth + 1)
            else:
                out.append((name, base + m["offset"], mtt["size"] if mtt else 0, m["base"]))
    return out


Module.di_leaves = _di_leaves
