"""Compile units of /repo's *current working tree* to LLVM IR facts, on every run.

No compilation database exists for librfn (the library is meant to be compiled
by whoever embeds it, with -Iinclude), so the flags are stated here.
"""
import atexit
import concurrent.futures
import hashlib
import os
import shutil
import subprocess
import sys
import threading

from . import ir

VERIF = os.path.dirname(os.path.dirname(os.path.abspath(__file__)))
REPO = os.environ.get("VERIF_REPO", "/repo")
IR2JSON = os.path.join(VERIF, "build", "ir2json")

CONFIGS = {
    "default": [],
    "noatomics": ["-D__STDC_NO_ATOMICS__"],
    "nofibre": ["-DCONFIG_NO_FIBRE"],
    "uchar": ["-funsigned-char"],          # plain char is unsigned on the ARM targets the library is written for
    "nofibre-uchar": ["-DCONFIG_NO_FIBRE", "-funsigned-char"],
}

BASE_FLAGS = ["-std=gnu11", "-UNDEBUG", "-O0", "-Xclang", "-disable-O0-optnone", "-g",
              "-fno-discard-value-names", "-Wno-everything"]

# Normalisation before analysis: in these units every file-local (static, including static inline functions from
# headers) function that is NOT listed here is inlined into its callers (opt always-inline).  The listed names are
# the static functions of the tree the rules were written against (anchors the rules name); anything else is a helper a
# later refactoring extracted, and the rules should see through it.  Inlining preserves semantics, so a verdict on the
# normalised unit is a verdict on the unit.
INLINE_KEEP = {
    "librfn/bintree.c": ["bintree_traverse_in_order_depth", "bintree_traverse_post_order_depth", "bintree_traverse_pre_order_depth",
                         "in_order_iterator", "list_left_iterator", "list_right_iterator", "post_order_iterator",
                         "pre_order_iterator", "visualize_node", "graph_node", "is_visited", "escape", "bintree_next"],
    "librfn/console.c": ["console_fibre_endpoint", "do_prompt", "do_tokenize", "find_command", "console_echo", "console_help",
                         "console_unknown"],
    "librfn/fibre.c": ["handle_atomic_runq", "update_current_state", "handle_timerq", "get_next_task", "get_next_wakeup",
                       "make_runnable", "add_taint", "duetime_cmp",
                       "list_empty", "messageq_empty", "list_peek",           # header inlines the fibre rules look for
                       "messageq_claim", "messageq_send", "messageq_receive", "messageq_release"],   # (the same if they move there)
    "librfn/hex.c": ["hexchar", "nibble"],
    "librfn/mlog.c": ["get_line"],
    "librfn/wavheader.c": ["format_tostring"],
    "librfn/pack.c": [], "librfn/ringbuf.c": [], "librfn/messageq.c": [], "librfn/rotenc.c": [], "librfn/rand.c": [],
    "librfn/list.c": [], "librfn/bitops.c": [], "librfn/regdump.c": [],
}

# Helpers that contain a loop are inlined as well, except in these units, whose rules summarise such helpers as
# functions (C20: the range-walk helper of mlog_dump).
KEEP_LOOP_HELPERS = {"librfn/mlog.c"}
# units whose PUBLIC functions are also inlined into their callers inside the same unit (they stay defined as well): the
# message queue's operations are analysed as wholes even when one is rebuilt on top of another (receive on top of a peek)
INLINE_PUBLIC_CALLEES = {"librfn/messageq.c": (),
                         # (the log's writers and readers are the rules' anchors; an accessor added next to them is not)
                         "librfn/wavheader.c": ("rf_wavheader_decode", "rf_wavheader_encode", "rf_wavheader_get_format", "rf_wavheader_init",
                                                "rf_wavheader_set_num_frames", "rf_wavheader_tostring", "rf_wavheader_validate"),
                         "librfn/mlog.c": ("vmlog", "vmlog_nice", "mlog", "mlog_nice", "mlog_clear", "mlog_dump", "mlog_get_line")}

_workdir = None
_lock = threading.Lock()


def workdir():
    global _workdir
    with _lock:
        if _workdir is None:
            base = os.path.join(VERIF, "build", "work")
            os.makedirs(base, exist_ok=True)
            wd = os.path.join(base, "w%d" % os.getpid())
            shutil.rmtree(wd, ignore_errors=True)
            os.makedirs(wd, exist_ok=True)
            atexit.register(lambda: shutil.rmtree(wd, ignore_errors=True))
            _workdir = wd
    return _workdir


def ensure_tool():
    with _lock:
        _ensure_tool()


def _ensure_tool():
    src = os.path.join(VERIF, "sa", "ir2json.cc")
    if os.path.exists(IR2JSON) and os.path.getmtime(IR2JSON) >= os.path.getmtime(src):
        return
    os.makedirs(os.path.dirname(IR2JSON), exist_ok=True)
    cxxflags = subprocess.check_output(["llvm-config-14", "--cxxflags"], text=True).split()
    tmp = IR2JSON + ".tmp%d" % os.getpid()
    cmd = ["clang++"] + cxxflags + ["-fno-rtti", "-O1", src, "-o", tmp,
                                    "/usr/lib/llvm-14/lib/libLLVM-14.so"]
    r = subprocess.run(cmd, capture_output=True, text=True)
    if r.returncode != 0:
        raise ir.AnalysisError("cannot build ir2json: " + r.stderr[-2000:])
    os.replace(tmp, IR2JSON)


# flags added to EVERY compilation of this process (a whole-check build variant such as -DNDEBUG); part of every cache tag
OVERLAY = [f for f in os.environ.get("VERIF_OVERLAY", "").split() if f]


def include_flags(repo=None):
    repo = repo or REPO
    return ["-I" + os.path.join(repo, "include"), "-I" + repo]


def _mark_always_inline(ll_text, names):
    """Give the named functions the alwaysinline attribute (and drop noinline/optnone) by cloning their attribute groups."""
    import re
    groups = {}
    for m in re.finditer(r"^attributes #(\d+) = \{(.*)\}\s*$", ll_text, re.M):
        groups[int(m.group(1))] = m.group(2)
    nxt = max(groups) + 1 if groups else 0
    clone = {}
    out = []
    for line in ll_text.split("\n"):
        if line.startswith("define "):
            m = re.search(r"@([\w.$]+)\(", line)
            if m and m.group(1) in names:
                g = re.search(r"\) ([^{]*?)#(\d+)", line)
                if g:
                    n = int(g.group(2))
                    if n not in clone:
                        clone[n] = nxt
                        nxt += 1
                    line = line[:g.start(2) - 1] + "#%d" % clone[n] + line[g.end(2):]
                else:
                    line = line.replace(" {", " alwaysinline {", 1) if " !dbg" not in line else line.replace(" !dbg", " alwaysinline !dbg", 1)
        out.append(line)
    text = "\n".join(out)
    for n, k in clone.items():
        attrs = " ".join(a for a in groups[n].split() if a not in ("noinline", "optnone"))
        text += "\nattributes #%d = { alwaysinline %s }\n" % (k, attrs)
    return text


def compile_unit(path, config="default", extra=(), repo=None, mem2reg=True, inline_except=None):
    """path: absolute source path. Returns path to the JSON facts.
    inline_except: None = the unit as written; a collection of names = every file-local (static) function DEFINED IN
    THIS SOURCE FILE other than those named is inlined into its callers before the analysis (a semantics-preserving
    normalisation: rules then see the same code whether or not a developer factored a step into a helper)."""
    ensure_tool()
    wd = workdir()
    if inline_except is not None:
        base_js = compile_unit(path, config, extra, repo, mem2reg, None)
        m0 = ir.Module(base_js, unit=path, config=config)
        bn = os.path.basename(path)
        rel = path[len(repo or REPO) + 1:] if path.startswith((repo or REPO) + "/") else path
        victims = sorted(f.name for f in m0.defined_functions()
                         if f.internal and f.name not in inline_except and (rel not in KEEP_LOOP_HELPERS or not f.loops_headers()))
        if rel in INLINE_PUBLIC_CALLEES:
            called = set(c.callee for f in m0.defined_functions() for c in f.calls() if isinstance(c.callee, str))
            defined = {f.name: f for f in m0.defined_functions()}
            for name in sorted(called & set(defined)):
                f = defined[name]
                if not f.internal and not f.loops_headers() and name not in [c.callee for c in f.calls()] and \
                        name not in INLINE_PUBLIC_CALLEES[rel]:
                    victims.append(name)
            victims = sorted(set(victims))
        # (no early return when there is nothing to inline: the same function-level normalisation - jump threading of
        # short-circuit conditions - is applied to every unit, so that a unit is analysed in one form whether or not it
        # happens to contain a helper)
        tag = hashlib.sha1((path + "|" + config + "|" + " ".join(extra) + "|" + " ".join(OVERLAY) + "|inl4+jt|" + ",".join(victims)).encode()).hexdigest()[:12]
        stem = os.path.join(wd, os.path.basename(path).replace(".", "_") + "_" + config + "_" + tag)
        js = stem + ".json"
        if os.path.exists(js):
            return js
        ll = base_js[:-5] + ".ll"
        text = _mark_always_inline(open(ll).read(), set(victims))
        with open(stem + ".in.ll", "w") as f:
            f.write(text)
        r = subprocess.run(["opt-14", "-passes=always-inline,function(lower-expect,mem2reg),always-inline,function(lower-expect,mem2reg,jump-threading)", "-S", stem + ".in.ll", "-o", stem + ".inl.ll"],
                           capture_output=True, text=True)
        if r.returncode != 0:
            raise ir.AnalysisError("opt (always-inline) failed on %s: %s" % (path, r.stderr[-2000:]))
        r = subprocess.run([IR2JSON, stem + ".inl.ll", js], capture_output=True, text=True)
        if r.returncode != 0:
            raise ir.AnalysisError("ir2json failed on %s: %s" % (path, r.stderr[-2000:]))
        return js
    tag = hashlib.sha1((path + "|" + config + "|" + " ".join(extra) + "|" + " ".join(OVERLAY)).encode()).hexdigest()[:12]
    stem = os.path.join(wd, os.path.basename(path).replace(".", "_") + "_" + config + "_" + tag)
    ll, ll2, js = stem + ".ll", stem + ".m2r.ll", stem + ".json"
    if os.path.exists(js):
        return js
    cmd = ["clang"] + BASE_FLAGS + include_flags(repo) + CONFIGS[config] + list(extra) + OVERLAY + \
          ["-S", "-emit-llvm", path, "-o", ll]
    r = subprocess.run(cmd, capture_output=True, text=True)
    if r.returncode != 0:
        raise ir.AnalysisError("unit does not compile: %s [%s]\n%s" % (path, config, r.stderr[-3000:]))
    if mem2reg:
        r = subprocess.run(["opt-14", "-passes=function(lower-expect,mem2reg)", "-S", ll, "-o", ll2], capture_output=True, text=True)
        if r.returncode != 0:
            raise ir.AnalysisError("opt failed on %s: %s" % (path, r.stderr[-2000:]))
    else:
        ll2 = ll
    r = subprocess.run([IR2JSON, ll2, js], capture_output=True, text=True)
    if r.returncode != 0:
        raise ir.AnalysisError("ir2json failed on %s: %s" % (path, r.stderr[-2000:]))
    return js


def load_unit(relpath, config="default", extra=(), repo=None, inline_except="auto"):
    repo = repo or REPO
    if inline_except == "auto":
        inline_except = INLINE_KEEP.get(relpath)
    path = relpath if os.path.isabs(relpath) else os.path.join(repo, relpath)
    if not os.path.exists(path):
        raise ir.AnalysisError("anchor vanished: source file %s does not exist" % relpath)
    js = compile_unit(path, config, extra, repo, inline_except=inline_except)
    return ir.Module(js, unit=relpath, config=config)


def load_units(relpaths, config="default", extra=(), repo=None):
    with concurrent.futures.ThreadPoolExecutor(max_workers=16) as ex:
        futs = [ex.submit(load_unit, p, config, extra, repo) for p in relpaths]
        return [f.result() for f in futs]


def library_units(repo=None):
    """Every C unit of the library that can be parsed here."""
    repo = repo or REPO
    out = []
    for d in ("librfn", "librfn/posix"):
        full = os.path.join(repo, d)
        if not os.path.isdir(full):
            continue
        for f in sorted(os.listdir(full)):
            if f.endswith(".c"):
                out.append(os.path.join(d, f))
    return out


def not_analysed_units(repo=None):
    repo = repo or REPO
    d = os.path.join(repo, "librfn", "libopencm3")
    if os.path.isdir(d):
        return ["librfn/libopencm3/" + f for f in sorted(os.listdir(d)) if f.endswith(".c")]
    return []


def compile_text(name, text, config="default", extra=(), mem2reg=True, flags_only=False, inline_except=None):
    """Compile a generated witness TU (source text) against the repo headers.  inline_except: see compile_unit (an empty
    collection inlines every static function, i.e. the headers' static inline helpers, into the witness functions)."""
    wd = workdir()
    path = os.path.join(wd, name)
    with open(path, "w") as f:
        f.write(text)
    js = compile_unit(path, config, extra, None, mem2reg, inline_except)
    return ir.Module(js, unit="witness:" + name, config=config)


def api_view(name, text, units, entry, config="default", extra=(), repo=None):
    """The library as a caller sees it: a generated TU that uses an API name exactly as user code does (a function, a
    static inline of the header or a macro - whatever the header currently makes of it) is linked with the IR of the
    named library units, and every function DEFINED in the result other than the witness entry points `entry` is inlined
    into them.  Rules then analyse the entry points: the behaviour behind the API name, wherever its pieces live."""
    ensure_tool()
    repo = repo or REPO
    wd = workdir()
    path = os.path.join(wd, name)
    with open(path, "w") as f:
        f.write(text)
    wjs = compile_unit(path, config, extra, repo, True, None)
    lls = [wjs[:-5] + ".m2r.ll"]
    for u in units:
        up = os.path.join(repo, u)
        if not os.path.exists(up):
            raise ir.AnalysisError("anchor vanished: %s" % u)
        lls.append(compile_unit(up, config, extra, repo, True, None)[:-5] + ".m2r.ll")
    stem = os.path.join(wd, name.replace(".", "_") + "_" + config + "_api")
    r = subprocess.run(["llvm-link-14", "-S"] + lls + ["-o", stem + ".link.ll"], capture_output=True, text=True)
    if r.returncode != 0:
        raise ir.AnalysisError("llvm-link failed for %s: %s" % (name, r.stderr[-2000:]))
    import re
    text_ll = open(stem + ".link.ll").read()
    defined = set(re.findall(r"^define [^@]*@([\w.$]+)\(", text_ll, re.M))
    victims = defined - set(entry)
    with open(stem + ".in.ll", "w") as f:
        f.write(_mark_always_inline(text_ll, victims))
    r = subprocess.run(["opt-14", "-passes=always-inline,function(lower-expect,mem2reg),always-inline,function(lower-expect,mem2reg,jump-threading)", "-S", stem + ".in.ll", "-o", stem + ".inl.ll"],
                       capture_output=True, text=True)
    if r.returncode != 0:
        raise ir.AnalysisError("opt (always-inline) failed on %s: %s" % (name, r.stderr[-2000:]))
    r = subprocess.run([IR2JSON, stem + ".inl.ll", stem + ".json"], capture_output=True, text=True)
    if r.returncode != 0:
        raise ir.AnalysisError("ir2json failed on %s: %s" % (name, r.stderr[-2000:]))
    return ir.Module(stem + ".json", unit="api-view:" + name + "+" + "+".join(units), config=config)


def syntax_check(name, text, extra=()):
    """Run clang -fsyntax-only on a generated TU; returns (returncode, stderr)."""
    wd = workdir()
    path = os.path.join(wd, name)
    with open(path, "w") as f:
        f.write(text)
    cmd = ["clang", "-std=gnu11", "-fsyntax-only", "-ferror-limit=0", "-Wno-everything"] + \
          include_flags() + list(extra) + [path]
    r = subprocess.run(cmd, capture_output=True, text=True)
    return r.returncode, r.stderr


def relpath(p):
    if p and p.startswith(REPO + "/"):
        return p[len(REPO) + 1:]
    return p
