"""Compile units of /repo's *current working tree* to LLVM IR facts, on every run.

No compilation database exists for librfn (the library is meant to be compiled
by whoever embeds it, with -Iinclude), so the flags are stated here.
"""
import atexit
import concurrent.futures
import hashlib
import os
import shutil
import subprocess
import sys
import threading

from . import ir

VERIF = os.path.dirname(os.path.dirname(os.path.abspath(__file__)))
REPO = os.environ.get("VERIF_REPO", "/repo")
IR2JSON = os.path.join(VERIF, "build", "ir2json")

CONFIGS = {
    "default": [],
    "noatomics": ["-D__STDC_NO_ATOMICS__"],
    "nofibre": ["-DCONFIG_NO_FIBRE"],
}

BASE_FLAGS = ["-std=gnu11", "-UNDEBUG", "-O0", "-Xclang", "-disable-O0-optnone", "-g",
              "-fno-discard-value-names", "-Wno-everything"]

_workdir = None
_lock = threading.Lock()


def workdir():
    global _workdir
    with _lock:
        if _workdir is None:
            base = os.path.join(VERIF, "build", "work")
            os.makedirs(base, exist_ok=True)
            wd = os.path.join(base, "w%d" % os.getpid())
            shutil.rmtree(wd, ignore_errors=True)
            os.makedirs(wd, exist_ok=True)
            atexit.register(lambda: shutil.rmtree(wd, ignore_errors=True))
            _workdir = wd
    return _workdir


def ensure_tool():
    with _lock:
        _ensure_tool()


def _ensure_tool():
    src = os.path.join(VERIF, "sa", "ir2json.cc")
    if os.path.exists(IR2JSON) and os.path.getmtime(IR2JSON) >= os.path.getmtime(src):
        return
    os.makedirs(os.path.dirname(IR2JSON), exist_ok=True)
    cxxflags = subprocess.check_output(["llvm-config-14", "--cxxflags"], text=True).split()
    tmp = IR2JSON + ".tmp%d" % os.getpid()
    cmd = ["clang++"] + cxxflags + ["-fno-rtti", "-O1", src, "-o", tmp,
                                    "/usr/lib/llvm-14/lib/libLLVM-14.so"]
    r = subprocess.run(cmd, capture_output=True, text=True)
    if r.returncode != 0:
        raise ir.AnalysisError("cannot build ir2json: " + r.stderr[-2000:])
    os.replace(tmp, IR2JSON)


def include_flags(repo=None):
    repo = repo or REPO
    return ["-I" + os.path.join(repo, "include"), "-I" + repo]


def compile_unit(path, config="default", extra=(), repo=None, mem2reg=True):
    """path: absolute source path. Returns path to the JSON facts."""
    ensure_tool()
    wd = workdir()
    tag = hashlib.sha1((path + "|" + config + "|" + " ".join(extra)).encode()).hexdigest()[:12]
    stem = os.path.join(wd, os.path.basename(path).replace(".", "_") + "_" + config + "_" + tag)
    ll, ll2, js = stem + ".ll", stem + ".m2r.ll", stem + ".json"
    if os.path.exists(js):
        return js
    cmd = ["clang"] + BASE_FLAGS + include_flags(repo) + CONFIGS[config] + list(extra) + \
          ["-S", "-emit-llvm", path, "-o", ll]
    r = subprocess.run(cmd, capture_output=True, text=True)
    if r.returncode != 0:
        raise ir.AnalysisError("unit does not compile: %s [%s]\n%s" % (path, config, r.stderr[-3000:]))
    if mem2reg:
        r = subprocess.run(["opt-14", "-passes=mem2reg", "-S", ll, "-o", ll2], capture_output=True, text=True)
        if r.returncode != 0:
            raise ir.AnalysisError("opt failed on %s: %s" % (path, r.stderr[-2000:]))
    else:
        ll2 = ll
    r = subprocess.run([IR2JSON, ll2, js], capture_output=True, text=True)
    if r.returncode != 0:
        raise ir.AnalysisError("ir2json failed on %s: %s" % (path, r.stderr[-2000:]))
    return js


def load_unit(relpath, config="default", extra=(), repo=None):
    repo = repo or REPO
    path = relpath if os.path.isabs(relpath) else os.path.join(repo, relpath)
    if not os.path.exists(path):
        raise ir.AnalysisError("anchor vanished: source file %s does not exist" % relpath)
    js = compile_unit(path, config, extra, repo)
    return ir.Module(js, unit=relpath, config=config)


def load_units(relpaths, config="default", extra=(), repo=None):
    with concurrent.futures.ThreadPoolExecutor(max_workers=16) as ex:
        futs = [ex.submit(load_unit, p, config, extra, repo) for p in relpaths]
        return [f.result() for f in futs]


def library_units(repo=None):
    """Every C unit of the library that can be parsed here."""
    repo = repo or REPO
    out = []
    for d in ("librfn", "librfn/posix"):
        full = os.path.join(repo, d)
        if not os.path.isdir(full):
            continue
        for f in sorted(os.listdir(full)):
            if f.endswith(".c"):
                out.append(os.path.join(d, f))
    return out


def not_analysed_units(repo=None):
    repo = repo or REPO
    d = os.path.join(repo, "librfn", "libopencm3")
    if os.path.isdir(d):
        return ["librfn/libopencm3/" + f for f in sorted(os.listdir(d)) if f.endswith(".c")]
    return []


def compile_text(name, text, config="default", extra=(), mem2reg=True, flags_only=False):
    """Compile a generated witness TU (source text) against the repo headers."""
    wd = workdir()
    path = os.path.join(wd, name)
    with open(path, "w") as f:
        f.write(text)
    js = compile_unit(path, config, extra, None, mem2reg)
    return ir.Module(js, unit="witness:" + name, config=config)


def syntax_check(name, text, extra=()):
    """Run clang -fsyntax-only on a generated TU; returns (returncode, stderr)."""
    wd = workdir()
    path = os.path.join(wd, name)
    with open(path, "w") as f:
        f.write(text)
    cmd = ["clang", "-std=gnu11", "-fsyntax-only", "-ferror-limit=0", "-Wno-everything"] + \
          include_flags() + list(extra) + [path]
    r = subprocess.run(cmd, capture_output=True, text=True)
    return r.returncode, r.stderr


def relpath(p):
    if p and p.startswith(REPO + "/"):
        return p[len(REPO) + 1:]
    return p
