#!/bin/sh
# Build the framework from files on disk only (offline).
set -e
cd "$(dirname "$0")"
mkdir -p build evidence
clang++ $(llvm-config-14 --cxxflags) -fno-rtti -O1 sa/ir2json.cc -o build/ir2json /usr/lib/llvm-14/lib/libLLVM-14.so
echo "setup ok"
