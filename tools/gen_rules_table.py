#!/usr/bin/env python3
"""Regenerate the table of DESIGN.md section 7.2 from the evidence files of the current tree."""
import json
import os
import re

V = os.path.dirname(os.path.dirname(os.path.abspath(__file__)))
rows = []
for n in range(1, 21):
    pid = "C%02d" % n
    d = json.load(open(os.path.join(V, "evidence", pid + ".json")))
    pr = d["coverage"]["per_rule"]
    parts = ", ".join("%s %d" % (k, v["obligations"]) for k, v in sorted(pr.items()))
    rows.append("| %s | %s | %d | %s |" % (pid, d["level"], d["coverage"]["obligations"], parts))
p = os.path.join(V, "DESIGN.md")
s = open(p).read()
head = "| check | level | obligations | sub-rules with obligations on the unchanged tree |\n|---|---|---|---|\n"
i = s.index(head) + len(head)
j = s.index("\n\n", i)
s = s[:i] + "\n".join(rows) + s[j:]
open(p, "w").write(s)
print("section 7.2: %d rows" % len(rows))
