#!/usr/bin/env python3
"""Per-change tables of one seeded round for DESIGN.md section 9: tools/gen_round_tables.py <mutant k1> <k2> <benign b1> <b2>"""
import json, os, sys
V = os.path.dirname(os.path.dirname(os.path.abspath(__file__))) + '/seeded'
k1, k2, b1, b2 = [int(x) for x in sys.argv[1:5]]
out = ["| change | first-try exit | now | rule that reports it |", "|---|---|---|---|"]
bad = []
for pid in ['C%02d' % i for i in range(1, 21)]:
    for k in (k1, k2):
        n = '%s-%d' % (pid, k)
        m = json.load(open('%s/%s/meta.json' % (V, n)))
        c = m.get('confirmed') or {}
        if not (c.get('patch_applies') and 'PASS: 17' in (c.get('suite') or '').replace('  ', ' ') and c.get('pristine_demo_exit') == 0 and c.get('mutant_demo_exit') not in (0, None)):
            bad.append((n, c))
        d = (m.get('detected_by') or {}).get(pid, {})
        ft = m.get('blind_first_try_exit')
        fts = {0: '0 (**missed**)', 1: '1', 2: '2 (inconclusive)'}.get(ft, str(ft))
        now = {0: '0 (**missed**)', 1: '1', 2: '2 (inconclusive)'}.get(d.get('exit'), str(d.get('exit')))
        rules = sorted(set(r for r in d.get('rules', []) if not r.startswith(('ndebug.', 'uchar.', 'ilp32.'))))
        if not rules:
            rules = sorted(set(d.get('rules', [])))
        out.append('| %s | %s | %s | %s |' % (n, fts, now, ', '.join(rules[:2])))
out += ['', '| refactor | first-try exit | now |', '|---|---|---|']
for pid in ['C%02d' % i for i in range(1, 21)]:
    for k in (b1, b2):
        n = '%s-b%d' % (pid, k)
        m = json.load(open('%s/benign/%s/meta.json' % (V, n)))
        r = m.get('result') or {}
        if not (r.get('patch_applies') and 'FAIL: 0' in (r.get('suite') or '').replace('  ', ' ')):
            bad.append((n, r.get('suite')))
        ft = m.get('blind_first_try_exit')
        fts = {0: '0', 1: '1 (**false alarm**)', 2: '2 (inconclusive)'}.get(ft, str(ft))
        now = (r.get('checks') or {}).get(pid, {}).get('exit')
        out.append('| %s | %s | %s |' % (n, fts, {0: '0', 1: '1 (**false alarm**)', 2: '2 (inconclusive)'}.get(now, str(now))))
print('\n'.join(out))
if bad:
    print('NOT CONFIRMED:', bad, file=sys.stderr)
